/* DFS over task/body operation sequences on the real task.c/body.c (auxiliary to C07).
 * usage: task_harness <flagsA> <flagsB> <depth>
 * flags: OR of TASK_FLAG_* for task 1 and task 2.
 * Symbols: op (x,p,r,e) x task (1,2) x body (1,2) x stack (0,1) = 32.
 * Explores, in a fixed order, every sequence whose prefix succeeded, replaying from scratch,
 * and prints one character per attempted op: '1' success, '0' failure. */
#include <stdint.h>
/* short-lived harness: leak checking off */
__attribute__((used)) const char *__asan_default_options(void);
const char *__asan_default_options(void) { return "detect_leaks=0"; }
#include <stdio.h>
#include <stdlib.h>
#include <string.h>
#include <unistd.h>
#include <fcntl.h>
#include "emu/task.h"

static uint32_t fA, fB;
static int maxdepth;
static char *out;
static size_t outn, outcap;

static void put(char c) {
	if (outn >= outcap) { outcap = outcap ? outcap * 2 : (1 << 20); out = realloc(out, outcap); }
	out[outn++] = c;
}

static int
apply(struct task_info *info, struct task_stack st[2], int sym)
{
	int op = sym & 3, task = (sym >> 2) & 1, body = (sym >> 3) & 1, stack = (sym >> 4) & 1;
	struct task *t = task_find(info->tasks, (uint32_t) (task + 1));
	uint32_t bid = (uint32_t) (body + 1);
	switch (op) {
		case 0: return task_execute(&st[stack], t, bid);
		case 1: return task_pause(&st[stack], t, bid);
		case 2: return task_resume(&st[stack], t, bid);
		default: return task_end(&st[stack], t, bid);
	}
}

static int
replay(const int *path, int n)
{
	/* fresh world; memory is leaked on purpose (short-lived process, leak checking off) */
	struct task_info *info = calloc(1, sizeof(*info));
	struct task_stack *st = calloc(2, sizeof(*st));
	if (task_type_create(info, 1, "type") != 0) exit(3);
	if (task_create(info, 1, 1, fA) != 0) exit(3);
	if (task_create(info, 1, 2, fB) != 0) exit(3);
	int ret = 0;
	for (int i = 0; i < n; i++)
		ret = apply(info, st, path[i]);
	return ret;
}

static void
dfs(int *path, int depth)
{
	for (int sym = 0; sym < 32; sym++) {
		path[depth] = sym;
		int ret = replay(path, depth + 1);
		put(ret == 0 ? '1' : '0');
		if (ret == 0 && depth + 1 < maxdepth)
			dfs(path, depth + 1);
	}
}

int
main(int argc, char *argv[])
{
	if (argc < 4) return 2;
	fA = (uint32_t) atoi(argv[1]);
	fB = (uint32_t) atoi(argv[2]);
	maxdepth = atoi(argv[3]);
	/* the modules are chatty on failures */
	int devnull = open("/dev/null", O_WRONLY);
	dup2(devnull, 2);
	int path[16];
	dfs(path, 0);
	fwrite(out, 1, outn, stdout);
	fputc('\n', stdout);
	return 0;
}
