/* Sweeps over src/emu/sort.c (auxiliary to C20).
 *   sort_harness replace <maxn> <maxv>      all sorted arrays of length <= maxn over values 0..maxv x all (old,new)
 *   sort_harness bay <seed> <n> <steps> <maxv>   seeded sequences of input changes through sort_cb_input with a bay */
#include <stdint.h>
/* short-lived harness: leak checking off */
__attribute__((used)) const char *__asan_default_options(void);
const char *__asan_default_options(void) { return "detect_leaks=0"; }
#include <stdio.h>
#include <stdlib.h>
#include <string.h>
#include "emu/sort.h"
#include "bay.h"
#include "chan.h"
#include "value.h"

static uint64_t s;
static uint64_t rnd(void) {
	s += 0x9E3779B97F4A7C15ULL; uint64_t z = s;
	z = (z ^ (z >> 30)) * 0xBF58476D1CE4E5B9ULL; z = (z ^ (z >> 27)) * 0x94D049BB133111EBULL; return z ^ (z >> 31);
}
static int cmp64(const void *a, const void *b) { int64_t x = *(const int64_t *) a, y = *(const int64_t *) b; return x < y ? -1 : x > y; }

static long
sweep_replace(int maxn, int maxv)
{
	long cases = 0;
	for (int n = 1; n <= maxn; n++) {
		int64_t arr[16];
		for (int i = 0; i < n; i++) arr[i] = 0;
		for (;;) {
			/* arr is non-decreasing: enumerate multisets */
			for (int oi = 0; oi < n; oi++) {
				if (oi > 0 && arr[oi] == arr[oi - 1]) continue;
				for (int64_t nv = 0; nv <= maxv; nv++) {
					if (nv == arr[oi]) continue;
					int64_t work[16], want[16];
					memcpy(work, arr, sizeof(int64_t) * (size_t) n);
					memcpy(want, arr, sizeof(int64_t) * (size_t) n);
					want[oi] = nv;
					qsort(want, (size_t) n, sizeof(int64_t), cmp64);
					sort_replace(work, n, arr[oi], nv);
					cases++;
					if (memcmp(work, want, sizeof(int64_t) * (size_t) n) != 0) {
						printf("FAIL replace n=%d old=%ld new=%ld arr=[", n, (long) arr[oi], (long) nv);
						for (int i = 0; i < n; i++) printf("%ld ", (long) arr[i]);
						printf("] got=[");
						for (int i = 0; i < n; i++) printf("%ld ", (long) work[i]);
						printf("]\n");
						return -1;
					}
				}
			}
			/* next non-decreasing array */
			int k = n - 1;
			while (k >= 0 && arr[k] == maxv) k--;
			if (k < 0) break;
			int64_t v = arr[k] + 1;
			for (int i = k; i < n; i++) arr[i] = v;
		}
	}
	return cases;
}

static int
run_bay(uint64_t seed, int n, long steps, int maxv)
{
	s = seed;
	struct bay bay;
	bay_init(&bay);
	struct chan *inputs = calloc((size_t) n, sizeof(struct chan));
	int64_t *cur = calloc((size_t) n, sizeof(int64_t));
	int64_t *want = calloc((size_t) n, sizeof(int64_t));
	int64_t *prev_out = calloc((size_t) n, sizeof(int64_t));
	for (int i = 0; i < n; i++) {
		chan_init(&inputs[i], CHAN_SINGLE, "input.%d", i);
		if (bay_register(&bay, &inputs[i]) != 0) return 3;
	}
	struct sort sort;
	if (sort_init(&sort, &bay, n, "sort0") != 0) return 3;
	for (int i = 0; i < n; i++)
		if (sort_set_input(&sort, i, &inputs[i]) != 0) return 3;
	for (long st = 0; st < steps; st++) {
		/* change 1..3 distinct inputs in the same propagation */
		int k = 1 + (int) (rnd() % 3);
		int touched[3] = {-1, -1, -1};
		for (int j = 0; j < k && j < n; j++) {
			int i;
			do { i = (int) (rnd() % (uint64_t) n); } while (i == touched[0] || i == touched[1]);
			touched[j] = i;
			int64_t v;
			do { v = (int64_t) (rnd() % (uint64_t) (maxv + 1)); } while (v == cur[i]);
			struct value val = v == 0 && (rnd() & 1) ? value_null() : value_int64(v);
			if (v == 0 && cur[i] == 0) continue;
			/* writing null when the channel already holds null is a duplicate: skip */
			if (chan_set(&inputs[i], val) != 0) { printf("FAIL chan_set\n"); return 1; }
			cur[i] = v;
		}
		if (bay_propagate(&bay) != 0) { printf("FAIL bay_propagate at step %ld\n", st); return 1; }
		memcpy(want, cur, sizeof(int64_t) * (size_t) n);
		qsort(want, (size_t) n, sizeof(int64_t), cmp64);
		for (int i = 0; i < n; i++) {
			struct value out;
			if (chan_read(sort_get_output(&sort, i), &out) != 0) return 3;
			int64_t ov = out.type == VALUE_INT64 ? out.i : 0;
			if (ov != want[i]) {
				printf("FAIL bay step %ld: output %d is %ld, sorted inputs give %ld\n", st, i, (long) ov, (long) want[i]);
				return 1;
			}
			prev_out[i] = ov;
		}
	}
	printf("OK bay n=%d steps=%ld\n", n, steps);
	return 0;
}

int
main(int argc, char *argv[])
{
	if (argc >= 4 && strcmp(argv[1], "replace") == 0) {
		long c = sweep_replace(atoi(argv[2]), atoi(argv[3]));
		if (c < 0) return 1;
		printf("OK replace cases=%ld\n", c);
		return 0;
	}
	if (argc >= 6 && strcmp(argv[1], "bay") == 0)
		return run_bay(strtoull(argv[2], NULL, 10), atoi(argv[3]), atol(argv[4]), atoi(argv[5]));
	return 2;
}
