/* Model-based sequence test of src/include/heap.h (auxiliary to C03).
 * usage: heap_harness <seed> <nops> <maxsize> <keyrange>
 * Exit 0 and prints "OK ..." or exit 1 and prints "FAIL ...". */
#include <stdint.h>
/* short-lived harness: leak checking off */
__attribute__((used)) const char *__asan_default_options(void);
const char *__asan_default_options(void) { return "detect_leaks=0"; }
#include <stdio.h>
#include <stdlib.h>
#include <string.h>
#include "heap.h"

struct item {
	int64_t key;
	long id;
	int in;
	heap_node_t hh;
};

static int
cmp(heap_node_t *a, heap_node_t *b)
{
	struct item *x = heap_elem(a, struct item, hh);
	struct item *y = heap_elem(b, struct item, hh);
	/* min-heap as used by player.c */
	if (x->key < y->key) return +1;
	if (x->key > y->key) return -1;
	return 0;
}

static uint64_t s;
static uint64_t
rnd(void)
{
	s += 0x9E3779B97F4A7C15ULL;
	uint64_t z = s;
	z = (z ^ (z >> 30)) * 0xBF58476D1CE4E5B9ULL;
	z = (z ^ (z >> 27)) * 0x94D049BB133111EBULL;
	return z ^ (z >> 31);
}

static long
walk(heap_node_t *n, heap_node_t *parent, int *bad, int depth, int *maxd, int *mind)
{
	if (n == NULL) {
		if (depth > *maxd) *maxd = depth;
		if (depth < *mind) *mind = depth;
		return 0;
	}
	if (n->parent != parent) *bad |= 1;
	if (parent && cmp(n, parent) > 0) *bad |= 2;
	return 1 + walk(n->left, n, bad, depth + 1, maxd, mind)
		+ walk(n->right, n, bad, depth + 1, maxd, mind);
}

int
main(int argc, char *argv[])
{
	if (argc < 5) return 2;
	s = strtoull(argv[1], NULL, 10);
	long nops = atol(argv[2]);
	long maxsize = atol(argv[3]);
	long range = atol(argv[4]);
	struct item *items = calloc((size_t) maxsize, sizeof(*items));
	heap_head_t head;
	heap_init(&head);
	long size = 0, pops = 0, ins = 0, maxseen = 0;
	for (long op = 0; op < nops; op++) {
		int do_insert = (size == 0) || (size < maxsize && (rnd() % 100) < 55);
		if (do_insert) {
			long i;
			for (i = 0; i < maxsize; i++)
				if (!items[i].in) break;
			memset(&items[i].hh, 0xAB, sizeof(items[i].hh)); /* stale links must not matter */
			items[i].key = (int64_t) (rnd() % (uint64_t) range);
			items[i].id = i;
			items[i].in = 1;
			heap_insert(&head, &items[i].hh, cmp);
			size++; ins++;
		} else {
			heap_node_t *n = heap_pop_max(&head, cmp);
			if (n == NULL) { printf("FAIL op %ld: pop returned NULL with model size %ld\n", op, size); return 1; }
			struct item *it = heap_elem(n, struct item, hh);
			int64_t min = INT64_MAX;
			for (long i = 0; i < maxsize; i++)
				if (items[i].in && items[i].key < min) min = items[i].key;
			if (!it->in) { printf("FAIL op %ld: popped element not in model\n", op); return 1; }
			if (it->key != min) { printf("FAIL op %ld: popped key %ld, minimum is %ld (size %ld)\n", op, (long) it->key, (long) min, size); return 1; }
			it->in = 0;
			size--; pops++;
		}
		if (size > maxseen) maxseen = size;
		if ((long) head.size != size) { printf("FAIL op %ld: head.size %zu, model %ld\n", op, head.size, size); return 1; }
		int bad = 0, maxd = 0, mind = 1 << 30;
		long cnt = walk(head.root, NULL, &bad, 0, &maxd, &mind);
		if (cnt != size) { printf("FAIL op %ld: tree has %ld nodes, model %ld\n", op, cnt, size); return 1; }
		if (bad & 1) { printf("FAIL op %ld: parent link broken\n", op); return 1; }
		if (bad & 2) { printf("FAIL op %ld: heap order broken\n", op); return 1; }
		if (size > 0 && maxd - mind > 1) { printf("FAIL op %ld: tree not complete (depths %d..%d)\n", op, mind, maxd); return 1; }
		if ((size == 0) != (head.root == NULL)) { printf("FAIL op %ld: root/size disagree\n", op); return 1; }
	}
	printf("OK ops=%ld inserts=%ld pops=%ld maxsize=%ld\n", nops, ins, pops, maxseen);
	free(items);
	return 0;
}
