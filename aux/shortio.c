/* LD_PRELOAD shim for the tools (E2 storage faults): seeded short transfers.
 * OVNI_VERIF_SHORTIO=<seed> makes about half of the pwrite(2) calls of more than one
 * byte transfer only part of what was asked (1 .. count-1 bytes), as a file system is
 * allowed to.  Nothing else changes; without the variable the shim is transparent. */
#define _GNU_SOURCE
#include <dlfcn.h>
#include <stdint.h>
#include <stdlib.h>
#include <sys/types.h>
#include <unistd.h>

static uint64_t state;
static int inited, enabled;

static uint64_t
next(void)
{
	state += 0x9E3779B97F4A7C15ULL;
	uint64_t z = state;
	z = (z ^ (z >> 30)) * 0xBF58476D1CE4E5B9ULL;
	z = (z ^ (z >> 27)) * 0x94D049BB133111EBULL;
	return z ^ (z >> 31);
}

static void
init(void)
{
	const char *s = getenv("OVNI_VERIF_SHORTIO");
	inited = 1;
	if (s && *s) {
		enabled = 1;
		state = strtoull(s, NULL, 10);
	}
}

static size_t
shorten(size_t count)
{
	if (!inited)
		init();
	if (!enabled || count < 2 || next() % 2 == 0)
		return count;
	return 1 + (size_t) (next() % (count - 1));
}

ssize_t
pwrite(int fd, const void *buf, size_t count, off_t offset)
{
	static ssize_t (*real)(int, const void *, size_t, off_t);
	if (!real)
		real = (ssize_t (*)(int, const void *, size_t, off_t)) dlsym(RTLD_NEXT, "pwrite");
	return real(fd, buf, shorten(count), offset);
}

ssize_t
pwrite64(int fd, const void *buf, size_t count, off64_t offset)
{
	static ssize_t (*real)(int, const void *, size_t, off64_t);
	if (!real)
		real = (ssize_t (*)(int, const void *, size_t, off64_t)) dlsym(RTLD_NEXT, "pwrite64");
	return real(fd, buf, shorten(count), offset);
}
