#!/bin/bash
# Runs every check against each property-preserving change in benign/ (throw-away worktrees). Any VIOLATION is a false alarm.
cd /verif || exit 2
rc=0
for d in benign/*/; do
  out=$(VERIF_WORKERS=${VERIF_WORKERS:-12} tools/try_mutant_wt.sh "$d/patch.diff" ${*:-ALL} 2>&1)
  n=$(echo "$out" | grep -c "^VIOLATION")
  echo "$(basename $d): $n violations; $(echo "$out" | grep -c 'exit=0') checks exit 0"
  [ "$n" != 0 ] && { echo "$out" | grep -E "^(VIOLATION|violation class)"; rc=1; }
done
exit $rc
