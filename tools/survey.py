#!/usr/bin/env python3
"""survey.py <ID> <n> [seed]: run n cases of a check and print the violation signatures with counts (no gating, no shrinking)."""
import sys, os, multiprocessing as mp, collections
sys.path.insert(0, os.path.dirname(os.path.dirname(os.path.abspath(__file__))))
from sim import framework, build
def main():
    pid, n = sys.argv[1].upper(), int(sys.argv[2])
    seed = int(sys.argv[3]) if len(sys.argv) > 3 else 1
    bld = build.ensure()
    modname = "sim.checks." + pid.lower()
    pool = mp.Pool(16, initializer=framework._winit, initargs=(modname, "quick", seed, bld.root))
    c = collections.Counter(); ex = {}
    for r in pool.imap_unordered(framework._wrun, range(n), chunksize=4):
        if not r["ok"]:
            c[r["sig"]] += 1
            ex.setdefault(r["sig"], r["detail"].split("\n--- tool")[0][:200])
    pool.terminate()
    for k, v in c.most_common():
        print(v, k, "|", ex[k])
main()
