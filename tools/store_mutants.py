#!/usr/bin/env python3
"""Confirm every seeded change against /repo HEAD in a scratch worktree and store the confirmed ones under /verif/seeded/.
usage: store_mutants.py [ID-VAR ...]"""
import json, os, shutil, subprocess, sys, concurrent.futures as cf
IDS = ["C01","C02","C03","C04","C05","C06","C07","C08","C09","C10","C11","C12","C13","C15","C16","C17","C19","C20"]
BASE = os.environ.get("MUTBASE", "/tmp/mut")
TAG = os.environ.get("MUTTAG", "")
# keys that do not start with a property id (file-targeted rounds): {"F1-A": "C06", ...}
PROPMAP = json.loads(os.environ.get("PROPMAP", "{}"))


def one(key):
    pid, var = key.split("-")
    src = "%s/%s.out/%s" % (BASE, pid, var)
    if not os.path.isdir(src):
        return key, None
    patch = os.path.join(src, "patch.ported.diff")
    ported = os.path.exists(patch)
    if not ported:
        patch = os.path.join(src, "patch.diff")
    subprocess.run(["/verif/tools/confirm_mutant.sh", pid, var, patch], stdout=subprocess.DEVNULL, stderr=subprocess.DEVNULL, cwd="/tmp")
    try:
        res = json.load(open("/tmp/confirm/%s-%s%s.json" % (pid, var, TAG)))
    except Exception as e:
        return key, {"error": str(e)}
    res["ported"] = ported
    return key, res
def main():
    keys = sys.argv[1:] or ["%s-%s" % (i, v) for i in IDS for v in "AB"]
    with cf.ThreadPoolExecutor(4) as ex:
        results = dict(ex.map(one, keys))
    for key in keys:
        res = results.get(key)
        if not res:
            print(key, "missing"); continue
        ok = res.get("applies") == 1 and "100% tests passed" in res.get("suite", "") and res.get("demo_exit_with_patch") not in ("0", "n/a") and res.get("demo_exit_without_patch") == "0"
        print(key, "CONFIRMED" if ok else "NOT CONFIRMED", res)
        pid, var = key.split("-")
        prop = PROPMAP.get(key, pid)
        dst = "/verif/seeded/" + (key if prop == pid else "%s-%s%s" % (prop, pid, var)) + TAG
        if os.path.exists(dst):
            shutil.rmtree(dst)
        if not ok:
            continue
        pid, var = key.split("-")
        src = "%s/%s.out/%s" % (BASE, pid, var)
        shutil.copytree(src, dst, ignore=shutil.ignore_patterns("patch.diff", "patch.ported.diff", "__pycache__", "out.*.txt"))
        shutil.copy("/tmp/confirm/%s%s.patch" % (key, TAG), os.path.join(dst, "patch.diff"))
        readme = open(os.path.join(src, "README.md")).read() if os.path.exists(os.path.join(src, "README.md")) else ""
        meta = {"property": prop, "variant": var if prop == pid else pid + var, "origin": "independent sub-agent given only the property text and a scratch worktree" + (" (later round: told which ideas were already taken, or restricted to a set of source files)" if TAG else ""),
                "ported_to_fixed_tree": res["ported"],
                "needs_to_manifest": "see README.md (section on what is needed for it to manifest)",
                "confirmed_at_repo_commit": res["head"],
                "what_was_run": ["git worktree add <scratch> HEAD; git apply patch.diff; cmake -G Ninja + build; ctest -j4 (suite must pass)",
                                 "demo.sh <scratch> with the patch (must fail) and after git checkout -- . + rebuild (must pass)"],
                "suite_with_patch": res["suite"], "demo_exit_with_patch": res["demo_exit_with_patch"],
                "demo_exit_without_patch": res["demo_exit_without_patch"], "caught_by": "see DESIGN.md §8b (table of seeded changes)"}
        json.dump(meta, open(os.path.join(dst, "meta.json"), "w"), indent=1)
main()
