#!/bin/bash
# usage: try_mutant.sh <patch.diff> <ID> [<ID>...]   -- applies to /repo, runs quick checks, reverts
set -u
patch="$1"; shift
cd /repo || exit 2
if ! git diff --quiet; then echo "/repo dirty"; exit 2; fi
git apply "$patch" || { echo "patch does not apply"; exit 2; }
trap 'git -C /repo checkout -- . ' EXIT
ids="$*"; [ "$ids" = "ALL" ] && ids=$(python3 -c "import json; print(' '.join(c['property_id'] for c in json.load(open('/verif/MANIFEST.json'))['checks']))")
for id in $ids; do
  ( cd /verif && timeout 600 ./ovv check "$id" ${TIER:+--tier $TIER} 2>&1 | grep -a -E "^(VIOLATION|KNOWN|C[0-9]+ tier|violation class|INFRA|GATE)" | head -8 )
done
