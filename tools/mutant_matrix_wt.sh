#!/bin/bash
# Parallel version of mutant_matrix.sh on throw-away worktrees (never touches /repo or /verif/evidence).
# usage: mutant_matrix_wt.sh [jobs] [pattern]
cd /verif || exit 2
jobs=${1:-4}; pat=${2:-*}
one() {
  d=$1; key=$(basename "$d"); id=${key%%-*}
  ids=$id
  case "$key" in C19-A2) ids="$id C16";; C09-B) ids="$id C04";; esac
  [ -f "$d/checks.txt" ] && ids=$(cat "$d/checks.txt")
  p="$d/patch.diff"
  res=$(VERIF_WORKERS=6 tools/try_mutant_wt.sh "$p" $ids 2>&1 | grep -a -E "^(VIOLATION|patch does not apply)" | awk '{print $1,$2}' | sort | uniq -c | tr '\n' ';')
  echo "$key: ${res:-MISSED}"
}
export -f one
ls -d seeded/$pat/ | xargs -P "$jobs" -I{} bash -c 'one {}'
