#!/bin/bash
# usage: try_mutant_wt.sh <patch.diff> <ID|ALL> [<ID>...]
# Like try_mutant.sh but never touches /repo: the patch is applied to a throw-away
# worktree under /dev/shm and the checks run with VERIF_REPO/VERIF_SCRATCH pointing
# there (own build cache, replays and evidence), so several can run side by side
# and /verif/evidence is not overwritten.  Everything is removed on exit.
set -u
patch=$(readlink -f "$1"); shift
tag=$(basename "$(dirname "$patch")")-$$
wt=/dev/shm/mutwt.$tag
git -C /repo worktree add -q --detach "$wt" HEAD || exit 2
trap 'git -C /repo worktree remove --force "$wt" 2>/dev/null; rm -rf "$wt" "$wt.out"; git -C /repo worktree prune' EXIT
git -C "$wt" apply "$patch" || { echo "patch does not apply"; exit 2; }
ids="$*"; [ "$ids" = "ALL" ] && ids=$(python3 -c "import json; print(' '.join(c['property_id'] for c in json.load(open('/verif/MANIFEST.json'))['checks']))")
export VERIF_REPO="$wt" VERIF_SCRATCH="$wt.out" VERIF_WORKERS="${VERIF_WORKERS:-8}"
mkdir -p "$wt.out"
( cd /verif && python3 sim/build.py >/dev/null 2>"$wt.out/build.err" ) || { echo "BUILD FAILED"; tail -5 "$wt.out/build.err"; exit 2; }
for id in $ids; do
  ( cd /verif && timeout 900 ./ovv check "$id" ${TIER:+--tier $TIER} 2>&1 | grep -a -E "^(VIOLATION|KNOWN|C[0-9]+ tier|violation class|INFRA|GATE)" | sed "s#$wt.out#<scratch>#g" | head -8 )
  if [ -n "${SHOW:-}" ]; then for f in "$wt.out"/replays/*.json; do [ -f "$f" ] && python3 -c "import json,sys; d=json.load(open(sys.argv[1])); print('  vclass=%s\n  %s' % (d['vclass'], d['detail'][:600].replace('\n','\n  ')))" "$f"; done; rm -f "$wt.out"/replays/*.json; fi
done
