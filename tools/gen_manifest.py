#!/usr/bin/env python3
"""Regenerates /verif/MANIFEST.json from the check modules that exist."""
import importlib
import json
import os
import sys

HERE = os.path.dirname(os.path.dirname(os.path.abspath(__file__)))
sys.path.insert(0, HERE)

ENGINE = {"C01": "E1 rtsim", "C02": "E1 rtsim", "C09": "E1 rtsim", "C10": "E1 rtsim", "C11": "E1 rtsim", "C17": "E1 rtsim",
          "C12": "E3 storefault", "C19": "E3 storefault"}
TEXT = {
    "C01": ("seeded search over call sequences, payload shapes, buffer-full alignments, legal short writes and relocation modes, with the real libovni sources "
            "under a simulated clock/file layer; byte-exact oracle from the driver's emit log. Evidence, not proof.", "4-C01"),
    "C02": ("seeded search over protocol-conformant programs aimed at the automatic-flush boundary; independent stream validator plus the real emulator's verdict.", "4-C02"),
    "C03": ("seeded search over clusters of streams with skewed clocks, ties, offset tables and directory enumeration orders; oracles: independent merge, "
            "exact Paraver times, byte-identical outputs across enumeration orders, model-based heap sequence test.", "4-C03"),
    "C04": ("seeded search over thread life-cycle histories with injected illegal moves; acceptance compared as an iff with a reference FSM and timelines compared "
            "at every event time.", "4-C04"),
    "C05": ("seeded search over interleavings of state and affinity events on shared CPUs; verdict iff + CPU rows vs reference + CPU rows vs thread rows.", "4-C05"),
    "C06": ("seeded search over interleavings of value changes with state/affinity changes through all tracking modes and models; every (row,type) compared with "
            "a reference evaluation at every event time.", "4-C06"),
    "C07": ("seeded search over task/body histories (nOS-V, Nanos6) with targeted illegal steps; verdict iff with a reference body FSM + task timelines.", "4-C07"),
    "C08": ("seeded search over nestings of all catalogued paired events of the eight models incl. stack limit, state preconditions and lint; labels compared "
            "through the run's .pcf against a frozen hand-reviewed catalogue.", "4-C08"),
    "C09": ("for every generated program, every crash point between two file-system calls (and torn variants of every write) is executed against the real runtime "
            "and the real emulator: enumeration of single crash faults per plan, seeded search over plans.", "4-C09"),
    "C10": ("for every generated program, every file-system step x every error that call can return (plus persistent disk-full) is injected alone: enumeration of "
            "single I/O faults per plan, seeded search over plans.", "4-C10"),
    "C11": ("seeded search over schedules of real threads parked/released at every libc call, atomic operation and API boundary (random, PCT, serial, round-robin), "
            "ASan+UBSan build for isolation oracles and a ThreadSanitizer build for data races.", "4-C11"),
    "C12": ("for every generated valid trace, every instance of each single corruption in the statement's list is applied and fed to the real emulator.", "4-C12"),
    "C13": ("post-run invariants over the Paraver files of every accepted emulation of a diversity-seeking seeded batch.", "4-C13"),
    "C15": ("seeded search over metadata distributions and creation orders of one world (metamorphic, byte-identical outputs) and single contradictions.", "4-C15"),
    "C16": ("seeded kernel-tracer simulation (delayed ring-buffer delivery) with exact stable-sort oracle, untouched-prefix, idempotence, check mode and emulator acceptance.", "4-C16"),
    "C17": ("seeded programs using the real mark API under the simulated scheduler and clock, emulated and compared with a reference at every event time; single "
            "conflicts between threads' definitions.", "4-C17"),
    "C19": ("seeded structure-aware storage corruption of valid traces; all four tools under ASan+UBSan with the stream in an exact-size heap buffer and a wall-clock bound.", "4-C19"),
    "C20": ("seeded grammar-following nOS-V/Nanos6 worlds emulated with -b; breakdown rows compared with the per-CPU reference as a sorted multiset at every event time.", "4-C20"),
}
NOTE = {
    "E2": "trusted: sim/world.py reference model (written from the statements and user docs), data/catalogue.json (frozen label table), the .prv/.pcf/.row parsers, tmpfs readdir = reverse creation order",
    "E1": "trusted: rt/seams.c+sched.c model of the OS (process kill durability, stdio loop over short writes), explicit-schedule replay; allocation failure not modelled",
    "E3": "trusted: the corruption catalogue only demands rejection for the classes the statement lists",
}
TECH = {"C09": "deterministic simulation: crash-point enumeration", "C10": "deterministic simulation: single I/O fault enumeration",
        "C12": "deterministic simulation: single storage-corruption enumeration", "C11": "deterministic simulation: seeded schedule search + TSan",
        "C19": "deterministic simulation: seeded storage-fault injection under sanitizers"}

NA = {
    "C14": "pure predicate over version triples and required-model subsets: no schedule, clock, fault or interleaving to simulate (exhaustive enumeration of a small domain is the right tool, which is not this technique)",
    "C18": "equality of finite tables decided by exhaustive enumeration of event codes: bounded enumeration of a pure function, not simulation",
}


def main():
    checks = []
    claimed = []
    for i in range(1, 21):
        pid = "C%02d" % i
        path = os.path.join(HERE, "sim", "checks", pid.lower() + ".py")
        if not os.path.exists(path):
            continue
        mod = importlib.import_module("sim.checks." + pid.lower())
        eng = ENGINE.get(pid, "E2 worldsim")
        text, ref = TEXT[pid]
        checks.append({
            "property_id": pid,
            "quick_cmd": "./ovv check %s --tier quick" % pid,
            "thorough_cmd": "./ovv check %s --tier thorough" % pid,
            "evidence_file": "evidence/%s.json" % pid,
            "replay_cmd_template": "./ovv replay {path}",
            "engine": eng,
            "level_claimed": {"category": mod.LEVEL, "text": text, "design_ref": "DESIGN.md §" + ref},
            "level_note": NOTE[eng.split(" ")[0]],
            "technique": TECH.get(pid, "deterministic simulation: seeded search over histories/schedules with fault injection"),
        })
        claimed.append(pid)
    na = [{"property_id": k, "reason": v} for k, v in sorted(NA.items())]
    for i in range(1, 21):
        pid = "C%02d" % i
        if pid not in claimed and pid not in NA:
            na.append({"property_id": pid, "reason": "check not built yet in this session (planned, see DESIGN.md §4)"})
    hooks = json.load(open(os.path.join(HERE, "MANIFEST.json")))["hooks"]
    m = {
        "version": 1,
        "setup_cmd": "python3 sim/build.py",
        "hooks": hooks,
        "engines": [
            {"name": "E1 rtsim", "path": "rt/ sim/rt.py sim/rtgen.py", "serves_properties": [c for c in claimed if ENGINE.get(c, "").startswith("E1")],
             "kind_free_text": "real libovni sources linked with --wrap seams: seeded scheduler over real threads, simulated clock, file layer with faults and process kill"},
            {"name": "E2 worldsim", "path": "sim/world.py sim/mgen.py sim/checks/", "serves_properties": [c for c in claimed if c not in ENGINE],
             "kind_free_text": "simulated traced machine + reference model; real ovniemu/ovnidump/ovnitop/ovnisort binaries consume the traces"},
            {"name": "E3 storefault", "path": "sim/storefault.py", "serves_properties": [c for c in claimed if ENGINE.get(c, "").startswith("E3")],
             "kind_free_text": "storage faults between writer and reader; tools under ASan+UBSan with the OVNI_VERIF heap-buffer hook"},
        ],
        "checks": checks,
        "not_applicable": na,
        "notes": "All checks honour VERIF_SEED and VERIF_TIER, rebuild from /repo's working tree (keyed by a hash of the sources) and rewrite evidence/<id>.json. "
                 "Exit 0 = held, 1 = VIOLATION line with a replay file that reproduces in a fresh process, 2 = infrastructure error. Genuine defects found: KNOWN_FINDINGS (30 repaired by 32 fix: commits in /repo, recorded as fixed: lines; 1 recorded as known: -- C03 dump-ignores-offset-table -- for which the C03 check prints KNOWN-FINDING and exits 0). Seeded breaking changes the checks were tuned against: seeded/ (188); property-preserving changes they must stay silent on: benign/.",
    }
    json.dump(m, open(os.path.join(HERE, "MANIFEST.json"), "w"), indent=1)
    print("claimed:", claimed)


main()
