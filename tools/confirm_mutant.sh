#!/bin/bash
# usage: confirm_mutant.sh <ID> <variant> [patchfile]   -- confirms a seeded change in a scratch worktree of /repo HEAD
# Writes /tmp/confirm/<ID>-<variant>.json
set -u
id="$1"; var="$2"; base="${MUTBASE:-/tmp/mut}"; tag="${MUTTAG:-}"; src=$base/$id.out/$var; patch="${3:-$src/patch.diff}"
wt=/tmp/confirm/wt-$id-$var$tag; out=/tmp/confirm/$id-$var$tag.json
mkdir -p /tmp/confirm; rm -rf "$wt"
git -C /repo worktree add --detach "$wt" HEAD -q || exit 2
cd "$wt" || exit 2
build() { cmake -G Ninja -S . -B _build -DCMAKE_BUILD_TYPE=RelWithDebInfo -DCMAKE_C_FLAGS=-Wno-error -DOVNI_GIT_COMMIT=x -Wno-dev >/dev/null 2>&1 && cmake --build _build >/dev/null 2>&1; }
applies=1; git apply "$patch" 2>/dev/null || applies=0
[ $applies = 1 ] && git diff > /tmp/confirm/$id-$var$tag.patch
suite="n/a"; demo_with="n/a"; demo_without="n/a"
if [ $applies = 1 ]; then
  if build; then
    suite=$(ctest --test-dir _build -j4 --timeout 900 2>&1 | grep -E "tests passed" | head -1)
    ( cd "$src" && timeout 600 bash ./demo.sh "$wt" >/tmp/confirm/$id-$var$tag.with.log 2>&1 ); demo_with=$?
  else suite="BUILD FAILED"; fi
  git checkout -- . ; git clean -fdq -e _build
  build
  ( cd "$src" && timeout 600 bash ./demo.sh "$wt" >/tmp/confirm/$id-$var$tag.without.log 2>&1 ); demo_without=$?
fi
printf '{"id":"%s","variant":"%s","applies":%s,"suite":"%s","demo_exit_with_patch":"%s","demo_exit_without_patch":"%s","head":"%s"}\n' "$id" "$var" "$applies" "$suite" "$demo_with" "$demo_without" "$(git -C /repo log --format=%h -1)" > "$out"
cd /; git -C /repo worktree remove --force "$wt"
cat "$out"
