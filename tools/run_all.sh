#!/bin/bash
# Runs every registered quick (or $1=thorough) check on the current tree and prints one line per check.
tier="${1:-quick}"
cd /verif || exit 2
rc=0
for id in $(python3 -c "import json; print(' '.join(c['property_id'] for c in json.load(open('MANIFEST.json'))['checks']))"); do
  s=$(date +%s)
  out=$(./ovv check "$id" --tier "$tier" 2>&1); code=$?
  e=$(date +%s)
  echo "$id exit=$code $((e-s))s $(echo "$out" | grep -E '^(VIOLATION|KNOWN-FINDING)' | cut -c1-100 | tr '\n' ' ')"
  [ $code -ne 0 ] && rc=1
done
exit $rc
