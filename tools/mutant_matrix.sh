#!/bin/bash
# Re-runs the quick check of the owning property against every stored seeded change. Output: one line per change.
cd /verif || exit 2
for d in seeded/*/; do
  key=$(basename "$d"); id=${key%%-*}
  extra=""
  case "$key" in C19-A2) extra="C16";; C09-B) extra="C04";; esac
  res=$(timeout 1500 tools/try_mutant.sh "/verif/$d/patch.diff" $id $extra 2>&1 | grep -a -E "^(VIOLATION|patch does not apply|/repo dirty)" | awk '{print $1,$2}' | sort | uniq -c | tr '\n' ';')
  echo "$key: ${res:-MISSED}"
done
find replays -name '*.json' -delete
