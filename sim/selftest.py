"""Determinism proof (DESIGN §6.1): every check's runs are executed twice from
their seeds, at two worker counts and under two PYTHONHASHSEEDs in fresh
interpreters; the per-run digests must be identical."""
import hashlib
import json
import multiprocessing as mp
import os
import subprocess
import sys

from . import build, framework

ALL = ["C01", "C02", "C03", "C04", "C05", "C06", "C07", "C08", "C09", "C10", "C11", "C12", "C13", "C15", "C16", "C17", "C19", "C20"]
HEAVY = {"C09": 6, "C10": 4, "C12": 4, "C01": 120, "C02": 120, "C11": 150}


def _digest(pid, n, seed, workers):
    bld = build.ensure()
    modname = "sim.checks." + pid.lower()
    pool = mp.Pool(workers, initializer=framework._winit, initargs=(modname, "quick", seed, bld.root))
    out = {}
    for r in pool.imap_unordered(framework._wrun, range(n), chunksize=2):
        h = hashlib.sha256(json.dumps([r.get("ihash"), r.get("ihashes_nontrivial"), r["ok"], r.get("vclass"), r.get("sig"), r.get("det"),
                                       r.get("verdict"), sorted(r.get("faults", {}).items()), sorted(r.get("probes", {}).items()),
                                       r.get("sim_ns"), r.get("evals")], sort_keys=True, default=str).encode()).hexdigest()[:20]
        out[r["idx"]] = h
    pool.terminate()
    print(json.dumps(out, sort_keys=True))


def main(argv):
    if argv and argv[0] == "_digest":
        _digest(argv[1], int(argv[2]), int(argv[3]), int(argv[4]))
        return 0
    if not argv or argv[0] != "determinism":
        print("usage: ovv selftest determinism [n] [IDs...]")
        return 2
    n = int(argv[1]) if len(argv) > 1 else 200
    ids = [a.upper() for a in argv[2:]] or ALL
    here = os.path.dirname(os.path.dirname(os.path.abspath(__file__)))
    bad = 0
    for pid in ids:
        k = min(n, HEAVY.get(pid, n))
        outs = []
        for (workers, hs) in ((16, "0"), (3, "12345"), (16, "987")):
            env = dict(os.environ, PYTHONHASHSEED=hs)
            p = subprocess.run([sys.executable, "-c", "import sys; sys.path.insert(0, %r); from sim import selftest; selftest.main(['_digest', %r, %r, '1', %r])"
                                % (here, pid, str(k), str(workers))], env=env, stdout=subprocess.PIPE, stderr=subprocess.PIPE)
            if p.returncode != 0:
                print(pid, "digest run failed:", p.stderr.decode()[-500:])
                bad += 1
                break
            outs.append(json.loads(p.stdout.decode().strip().splitlines()[-1]))
        else:
            diff = [i for i in outs[0] if outs[0][i] != outs[1].get(i) or outs[0][i] != outs[2].get(i)]
            print("%s: %d runs x 3 executions (16 workers/hashseed 0, 3 workers/hashseed 12345, 16 workers/hashseed 987): %s"
                  % (pid, k, "IDENTICAL" if not diff else "DIVERGED at runs %r" % diff[:10]))
            bad += 1 if diff else 0
    return 1 if bad else 0
