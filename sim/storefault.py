"""E3: storage faults between the trace writer and the tools (DESIGN §3, C12/C19)."""
import copy
import json
import os
import struct

from . import tracefmt as tf
from . import mgen
from . import world as W
from .prng import Rng

ALL_MODELS = ["nosv", "nanos6", "nodes", "mpi", "tampi", "openmp", "kernel"]


def base_trace(rng, size="small", models=None, marks=True):
    """A valid, accepted multi-stream trace from the simulated machine.
    Returns (case, world, machine) -- case is a machine-mode case (world+actions)."""
    rk = rng.derive("knobs")
    if models is None:
        models = rk.sample(ALL_MODELS, rk.randint(1, 3))
    mk = {}
    if marks and rk.chance(60):
        ty = rk.below(100)
        mk[str(ty)] = {"title": "m%d" % ty, "stack": rk.chance(50), "labels": {"3": "three"}}
    desc = mgen.gen_world_desc(rng.derive("world"), nlooms=(1, 2), ncpus=(1, 2), nprocs=(1, 2), nthreads=(1, 2), models=models, marks=mk)
    tasky = "nosv" in models or "nanos6" in models
    g = mgen.Gen(rng.derive("workload"), desc,
                 knobs={"w_state": 14, "w_aff": 12, "w_region": 25, "w_task": 30 if tasky else 0, "w_mark": 12 if mk else 0,
                        "w_flush": 3, "w_filler": 6, "w_kernel": 4 if "kernel" in models else 0, "w_idle": 4,
                        "pause_needs_region": True, "maxdepth": 3})
    for _ in range({"small": 25, "medium": 80}[size]):
        g.step()
    g.finish()
    case = {"world": desc, "actions": g.actions}
    return case


def materialise(case):
    w, m = mgen.materialise(case)
    return w, m, [t.stream for t in w.threads]


def event_spans(obs):
    """[(offset, size, Ev)] for a valid stream."""
    dec = tf.decode(obs)
    spans = []
    for i, (off, e) in enumerate(dec):
        end = dec[i + 1][0] if i + 1 < len(dec) else len(obs)
        spans.append((off, end - off, e))
    return spans


SIZE_CHECKED_NOPAYLOAD = ["OHx", "OAs", "OAr", "OM[", "OM]", "OM=", "VTc", "VTC", "VTx", "VTe", "VTp", "VTr",
                          "6Tc", "6Tx", "6Te", "6Tp", "6Tr"]
EXACT_SIZE = {"OAs": 4, "OAr": 8, "OM[": 12, "OM]": 12, "OM=": 12, "6Tc": 8}
MODEL_CHARS = {"nosv": "V", "nanos6": "6", "nodes": "D", "mpi": "M", "tampi": "T", "openmp": "P", "kernel": "K"}
SAMPLE_EVENT = {"nosv": "VSh", "nanos6": "6W[", "nodes": "DR[", "mpi": "MUi", "tampi": "TCi", "openmp": "PBb", "kernel": "KCO"}


def _known_codes():
    known = {}
    for name, cat in W.CATALOGUE.items():
        ch = cat["char"]
        for e in cat["entries"]:
            known.setdefault(ch, {}).setdefault(e["mcv"][1], set()).add(e["mcv"][2])
    # events with their own handlers
    for ch in ("V", "6"):
        known[ch].setdefault("T", set()).update("cxepr")
        known[ch].setdefault("Y", set()).update("c")
    known["V"]["T"].add("C")
    known["6"]["T"].add("C")        # legacy, accepted with a warning
    known.setdefault("O", {})
    known["O"]["H"] = set("xepcwrC")
    known["O"]["A"] = set("sr")
    known["O"]["F"] = set("[]")
    known["O"]["M"] = set("[]=")
    known["O"]["C"] = set("n")      # legacy, accepted with a warning
    return known


KNOWN_CODES = _known_codes()


def unknown_in_known_category(model_char, salt):
    """An MCV whose model and category exist but whose value is not catalogued
    (not for the base model's burst / unordered categories, whose value is ignored)."""
    cats = KNOWN_CODES.get(model_char)
    if not cats:
        return None
    names = sorted(cats)
    c = names[salt % len(names)]
    pool = "abcdefghijklmnopqrstuvwxyzABCDEFGHIJKLMNOPQRSTUVWXYZ[]@*=0123456789"
    free = [v for v in pool if v not in cats[c]]
    if not free:
        return None
    return model_char + c + free[salt % len(free)]


def set_path(d, dotted, value, remove=False):
    parts = dotted.split(".")
    cur = d
    for p in parts[:-1]:
        if p not in cur or not isinstance(cur[p], dict):
            return False
        cur = cur[p]
    if remove:
        if parts[-1] not in cur:
            return False
        del cur[parts[-1]]
    else:
        cur[parts[-1]] = value
    return True


def single_corruptions(streams, models, rng, truncation_stride=1):
    """Yields (kind, description, stream index, new obs bytes or None, new json bytes or None)
    for EVERY instance of each single corruption the statement lists."""
    for si, s in enumerate(streams):
        obs = s.obs_bytes()
        spans = event_spans(obs)
        bounds = {off for off, _, _ in spans} | {len(obs)}
        # 1. truncation at each byte offset that is not an event boundary (and of the header)
        for cut in range(0, len(obs), truncation_stride):
            if cut in bounds and cut >= 8:
                continue
            yield ("truncate", "stream %d truncated to %d of %d bytes" % (si, cut, len(obs)), si, obs[:cut], None)
        # 2. swap of each adjacent pair of events with different clocks
        for i in range(len(spans) - 1):
            (o1, n1, e1), (o2, n2, e2) = spans[i], spans[i + 1]
            if e1.clock == e2.clock:
                continue
            new = obs[:o1] + obs[o2:o2 + n2] + obs[o1:o1 + n1] + obs[o2 + n2:]
            yield ("swap", "stream %d: events %d (%s@%d) and %d (%s@%d) swapped" % (si, i, e1.mcv, e1.clock, i + 1, e2.mcv, e2.clock), si, new, None)
        # 3. each header byte altered
        for b in range(8):
            for val in sorted({obs[b] ^ 0x01, obs[b] ^ 0x80, 0, 0xFF} - {obs[b]}):
                yield ("header", "stream %d: header byte %d set to 0x%02x" % (si, b, val), si, obs[:b] + bytes([val]) + obs[b + 1:], None)
        # 5. substitution of an MCV
        absent = [m for m in MODEL_CHARS if m not in models]
        for i, (off, n, e) in enumerate(spans):
            if e.mcv[0] in "O" and e.mcv[1] in "HA":
                continue    # keep the thread life-cycle intact so that only the substituted event is at fault
            cands = []
            if absent:
                cands.append(("model-not-required", SAMPLE_EVENT[absent[(i + si) % len(absent)]]))
            cands.append(("unknown-event", e.mcv[0] + "~" + "~" if e.mcv[0] != "O" else "O~~"))
            kc = unknown_in_known_category(e.mcv[0], i + si)
            if kc:
                cands.append(("unknown-value-in-known-category", kc))
            cands.append(("unknown-model", "~" + e.mcv[1:]))
            # codes outside 7-bit ASCII that coincide with a catalogued code when the top bit is dropped, or that
            # land on a catalogued neighbour when a 256-entry table is indexed as if it had 128 columns
            c, v = ord(e.mcv[1]), ord(e.mcv[2])
            if not (e.mcv[0] == "O" and e.mcv[1] in "BU"):
                cands.append(("unknown-event-high-bit", e.mcv[0] + chr(c) + chr(v | 0x80)))
                if c > 1:
                    cands.append(("unknown-event-high-bit", e.mcv[0] + chr(c - 1) + chr(v | 0x80)))
            cands.append(("unknown-event-high-bit", e.mcv[0] + chr(c | 0x80) + chr(v)))
            cands.append(("unknown-event-high-bit", e.mcv[0] + chr(c | 0x80) + chr(v | 0x80)))
            cands.append(("unknown-model", chr(ord(e.mcv[0]) | 0x80) + e.mcv[1:]))
            for why, mcv in cands:
                if e.mcv[0] == "O" and e.mcv[1] in "BU" and why == "unknown-event" and False:
                    continue
                new = obs[:off + 1] + mcv.encode("latin-1") + obs[off + 4:]
                yield ("mcv:" + why, "stream %d: event %d %s replaced by %s" % (si, i, e.mcv, mcv), si, new, None)
        # 6. wrong payload sizes for size-checked events
        for i, (off, n, e) in enumerate(spans):
            if e.jumbo is None and e.mcv in SIZE_CHECKED_NOPAYLOAD and len(e.payload) > 0:
                new = obs[:off] + tf.enc(e.mcv, e.clock, b"") + obs[off + n:]
                yield ("payload:removed", "stream %d: payload removed from event %d %s" % (si, i, e.mcv), si, new, None)
            if e.jumbo is None and e.mcv in EXACT_SIZE:
                want = EXACT_SIZE[e.mcv]
                for sz in sorted({want - 2, want + 2, want + 4} - {want, 0, 1}):
                    if 2 <= sz <= 16:
                        pl = (e.payload + b"\0" * 16)[:sz]
                        new = obs[:off] + tf.enc(e.mcv, e.clock, pl) + obs[off + n:]
                        yield ("payload:wrong-size", "stream %d: event %d %s payload %d bytes instead of %d" % (si, i, e.mcv, sz, want), si, new, None)
            if e.jumbo is not None and e.mcv in ("VYc", "6Yc") and len(e.jumbo) <= 12:
                # same bytes on disk, jumbo flag cleared: the stream still tiles
                flags = (4 + len(e.jumbo) - 1)
                new = obs[:off] + bytes([flags]) + obs[off + 1:]
                yield ("payload:jumbo-flag-cleared", "stream %d: event %d %s with the jumbo flag cleared" % (si, i, e.mcv), si, new, None)
        # 4. metadata
        meta = s.meta
        jb = s.json_bytes()
        for key, alts in (("version", [2, 4, "3", 3.9, 3.0000001, -3]), ("ovni.part", [None]), ("ovni.tid", [0]), ("ovni.pid", [0]),
                          ("ovni.loom", [None]), ("ovni.finished", [0]), ("ovni.require", [None]),
                          ("ovni.lib.version", [None]), ("ovni.lib.commit", [None])):
            m2 = copy.deepcopy(meta)
            if set_path(m2, key, None, remove=True):
                yield ("meta:removed", "stream %d: metadata key %s removed" % (si, key), si, None, json.dumps(m2).encode())
            for a in alts:
                if a is None:
                    continue
                m2 = copy.deepcopy(meta)
                set_path(m2, key, a)
                yield ("meta:altered", "stream %d: metadata key %s set to %r" % (si, key, a), si, None, json.dumps(m2).encode())
        for mod in models:
            used = any(e.mcv[0] == MODEL_CHARS[mod] for _, _, e in spans)
            if not used:
                continue
            m2 = copy.deepcopy(meta)
            set_path(m2, "ovni.require." + mod, "99.0.0")
            yield ("meta:require-version", "stream %d: ovni.require.%s = 99.0.0" % (si, mod), si, None, json.dumps(m2).encode())
        for cut in sorted({1, len(jb) // 3, len(jb) // 2, len(jb) - 2}):
            if 0 < cut < len(jb) - 1:
                yield ("meta:torn", "stream %d: stream.json torn at byte %d of %d" % (si, cut, len(jb)), si, None, jb[:cut])
    # loom_cpus / app_id removed from every carrier of a loom / process
    looms = {}
    procs = {}
    for si, s in enumerate(streams):
        looms.setdefault(s.loom, []).append(si)
        procs.setdefault((s.loom, s.pid), []).append(si)
    # a model is enabled when SOME stream requires it: remove the requirement from the whole trace
    for mod in models:
        used = any(e.mcv[0] == MODEL_CHARS[mod] for s in streams for e in s.events)
        if used:
            yield ("meta:require-removed", "ovni.require.%s removed from every stream although the trace has %s events" % (mod, mod),
                   list(range(len(streams))), None, "require." + mod)
    for name, sis in looms.items():
        yield ("meta:no-cpus", "loom %s: loom_cpus removed from all its streams" % name, sis, None, "loom_cpus")
    for (l, p), sis in procs.items():
        yield ("meta:no-appid", "process %d: app_id removed from all its streams" % p, sis, None, "app_id")
