"""C10 -- I/O faults are never silent (DESIGN §4 C10): fault enumeration over single failing calls."""
import json
import os

from .. import rt, rtgen
from ..framework import result, ihash, emu_verdict
from . import c09

ID = "C10"
LEVEL = "fault_enumeration"
RUNS = {"quick": 40, "thorough": 400}
RUN_ALARM = 900
RULE = ("for each seeded protocol-conformant program (as C09: 1-3 threads, with and without OVNI_TMPDIR) the fault-free run numbers its N "
        "file-system steps; then every step k x every error that call can return (mkdir: EACCES ENOSPC EROFS; open/fopen/opendir: EACCES "
        "EMFILE ENOENT ENOSPC; write/fwrite: ENOSPC EIO EINTR and short counts; fclose: ENOSPC; close: EIO, and EIO with the tail of the "
        "accepted writes lost (write-behind storage); fread: EIO; readdir: early end "
        "with EIO; remove/rmdir: EACCES EBUSY; stat: EACCES) is injected ALONE, plus the persistent 'disk full from step k' variant; "
        "evaluations = faulty executions; distinct = (plan, step, fault); non-trivial = the fault hit after some thread had flushed events")
REAL = ["src/rt/ovni.c, src/common.c, src/parson.c (ASan+UBSan) and ovniemu -l built from /repo's working tree"]
STUB = ["scheduler (explicit schedule replayed from the fault-free run), clock, file layer with errno/short-count injection (rt/seams.c)"]
ASSUMPTIONS = ["allocation failures are not injected (the statement is about file-system operations)",
               "a legal short count is not an error: the run must then end in the second outcome or abort"]

E = {"EACCES": 13, "ENOSPC": 28, "EROFS": 30, "EMFILE": 24, "ENOENT": 2, "EIO": 5, "EINTR": 4, "EBUSY": 16, "EXDEV": 18}
ERRS = {"mkdir": ["EACCES", "ENOSPC", "EROFS"], "stat": ["EACCES"], "open": ["EACCES", "EMFILE", "ENOENT", "ENOSPC"],
        "fopen": ["EACCES", "EMFILE", "ENOENT", "ENOSPC"], "opendir": ["EACCES", "EMFILE", "ENOENT"],
        "write": ["ENOSPC", "EIO", "EINTR"], "fwrite": ["ENOSPC", "EIO", "EINTR"], "fclose": ["ENOSPC"], "close": ["EIO"],
        "fread": ["EIO"], "readdir": ["EIO"], "remove": ["EACCES", "EBUSY"], "rmdir": ["EACCES", "EBUSY"], "closedir": [],
        "rename": ["EXDEV", "EACCES", "ENOSPC"], "unlink": ["EACCES", "EBUSY"], "fsync": ["EIO", "ENOSPC"], "fdatasync": ["EIO", "ENOSPC"]}

gen = c09.gen


def faults_for(step, quick):
    out = []
    for e in ERRS.get(step.call, []):
        out.append(("errno:" + e, (step.k, E[e], 0, 1 if step.call == "readdir" else 0)))
    if step.call in ("write", "fwrite") and step.req > 1:
        out.append(("short:half", (step.k, 0, max(1, step.req // 2), 0)))
        out.append(("short:1", (step.k, 0, 1, 0)))
    if step.call == "close":
        # the error of write-behind storage: reported by close, and the tail of the accepted writes is gone
        out.append(("close:EIO-writes-lost", (step.k, E["EIO"], 1, 0)))
    if step.call == "fread" and step.ret > 1:
        out.append(("short-read", (step.k, 0, max(1, step.ret // 2), 0)))
    return out


def run(case, ctx):
    plan = rt.Plan.from_case(case["plan"])
    d = ctx.workdir()
    info = {"sim_ns": 0, "size": sum(len(t) for t in plan.ops), "ihash": ihash(case["plan"]), "nontrivial": True,
            "faults": {}, "probes": {}, "evals": 0}
    quick = ctx.tier == "quick"
    try:
        base = rt.run_plan(ctx, plan, d, variant=case["variant"])
        h = base.hist
        if base.status != 0 or h.end != "done":
            return result(False, "fault-free-run-failed", None, "status %s end %s\n--- tool stderr (tail) ---\n%s" % (base.status, h.end, base.stderr[-800:]), **info)
        steps = h.steps
        N = len(steps)
        truth = {tid: open(os.path.join(rtgen.stream_dir(base.root, plan.knobs, tid), "stream.obs"), "rb").read() for tid in case["tids"]}
        info["sim_ns"] = h.allclocks[-1][2] - 10 ** 9 if h.allclocks else 0
        info["sample"] = {"variant": case["variant"], "knobs": plan.knobs, "threads": len(plan.ops), "fs_steps": N,
                          "steps_tail": [repr(s) for s in steps[-8:]]}
        plan.knobs["sched"] = h.sched or None
        # when has each thread finished flushing? (index of its last 'flush' op)
        lastflush = {}
        for t, ops in enumerate(plan.ops):
            idx = [i for i, o in enumerate(ops) if o[0] == "flush"]
            lastflush[t] = idx[-1] if idx else None
        hashes = []
        variants = []
        for s in steps:
            for (name, f) in faults_for(s, quick):
                variants.append((s, name, [f], None))
            variants.append((s, "diskfull-from", [], s.k))
        for (s, name, faults, diskfull) in variants:
            plan.faults = faults
            plan.knobs["diskfull_from"] = diskfull
            out = rt.run_plan(ctx, plan, d, variant=case["variant"])
            info["evals"] += 1
            kind = "%s@%s" % (name, s.call)
            info["faults"][kind] = info["faults"].get(kind, 0) + 1
            hh = out.hist
            flushed_before = any(c09.flush_log_len(steps, tid, s.k, None) > 8 for tid in case["tids"])
            if flushed_before:
                hashes.append(ihash([info["ihash"], s.k, name]))
            where = "fault %s at step %d (%s %s, thread %d)" % (name, s.k, s.call, s.path, s.th)
            tail = "\n--- tool stderr (tail) ---\n" + out.stderr[-700:]
            bad = None
            if hh.end == "abort" and out.status == 134:
                if not out.stderr.strip():
                    bad = ("aborted-without-diagnostic", where + ": the runtime aborted without saying why")
                info["probes"]["outcome: aborted with a diagnostic"] = info["probes"].get("outcome: aborted with a diagnostic", 0) + 1
            elif hh.end == "done" and out.status == 0:
                # every API call returned normally: the trace must be complete and valid
                tdir = os.path.join(out.root, rtgen.tracedir_of(plan.knobs))
                for t, tid in enumerate(case["tids"]):
                    sd = rtgen.stream_dir(out.root, plan.knobs, tid)
                    try:
                        obs = open(os.path.join(sd, "stream.obs"), "rb").read()
                    except OSError:
                        obs = None
                    exp = rt.expected_user_events(plan.ops[t], hh, t, upto_op=lastflush[t])
                    lost = ("stream.obs is missing",) if obs is None else rtgen.check_stream_against_log(obs, exp)
                    if lost:
                        bad = ("returned-normally-after-losing-flushed-events",
                               where + ": every API call returned normally, but the final stream of thread %d does not hold what the thread "
                               "flushed (%s)" % (tid, lost[-1]))
                        break
                    v = rtgen.validate_stream(obs)
                    if v:
                        bad = ("returned-normally-with-invalid-stream", where + ": " + v[1])
                        break
                    try:
                        meta = json.load(open(os.path.join(sd, "stream.json")))
                        fin = meta["ovni"].get("finished") == 1
                    except (OSError, ValueError, KeyError):
                        fin = False
                    if not fin:
                        bad = ("returned-normally-with-incomplete-metadata", where + ": thread %d: stream.json missing, unparsable or not finished" % tid)
                        break
                if bad is None:
                    st, so, se = ctx.run_tool("ovniemu", ["-l", tdir])
                    v = emu_verdict(st, se)
                    if v != "accept":
                        bad = ("returned-normally-but-emulator-rejects", where + ": ovniemu -l says %s\n%s" % (v, se.decode(errors="replace")[-500:]))
                info["probes"]["outcome: returned normally with a complete trace"] = info["probes"].get("outcome: returned normally with a complete trace", 0) + (0 if bad else 1)
            else:
                bad = ("runtime-crashed", where + ": rtsim status %s end %s" % (out.status, hh.end))
            if bad is None:
                # never deletes the only complete copy
                for t, tid in enumerate(case["tids"]):
                    if lastflush[t] is None or (t, lastflush[t]) not in hh.op_end:
                        continue
                    wr = [x for x in hh.steps if x.call == "write" and x.path.endswith("thread.%d/stream.obs" % tid)]
                    if any(x.ret < 0 for x in wr):
                        continue
                    if name == "close:EIO-writes-lost" and s.path.endswith("thread.%d/stream.obs" % tid):
                        continue        # the storage lost this copy, not the runtime: aborting with a diagnostic is all it can do
                    exp = rt.expected_user_events(plan.ops[t], hh, t, upto_op=lastflush[t])
                    places = [rtgen.stream_dir(out.root, plan.knobs, tid), rtgen.tmp_stream_dir(out.root, plan.knobs, tid)]
                    ok = False
                    for pl in places:
                        if pl is None:
                            continue
                        try:
                            if rtgen.check_stream_against_log(open(os.path.join(pl, "stream.obs"), "rb").read(), exp) is None:
                                ok = True
                        except OSError:
                            pass
                    if not ok:
                        bad = ("only-complete-copy-deleted", where + ": thread %d had flushed its whole stream (%d bytes) successfully, "
                               "but no complete copy is left in the temporary or the final directory" % (tid, sum(x.ret for x in wr)))
                        break
            if bad is not None:
                r = result(False, bad[0], bad[0] + ":" + s.call, bad[1] + tail, **info)
                r["det"] = bad[1]
                r["ihashes_nontrivial"] = hashes
                return r
        r = result(True, **info)
        r["ihashes_nontrivial"] = hashes
        r["ihash"] = ""
        return r
    finally:
        ctx.cleanup(d)


shrink_candidates = c09.shrink_candidates
