"""C12 -- structurally invalid or incomplete traces are rejected (DESIGN §4 C12): enumeration of single corruptions."""
import copy
import json
import os

from .. import storefault as sf
from .. import tracefmt as tf
from ..framework import result, ihash, emu_verdict
from ..prng import Rng
from ..world import BASE_CLOCK as W_BASE

ID = "C12"
LEVEL = "fault_enumeration"
RUNS = {"quick": 50, "thorough": 600}
RUN_ALARM = 900
RULE = ("a valid multi-stream trace from the simulated machine (all models in rotation, jumbo events, payloads of every size) is the written "
        "state; the storage layer then applies ONE fault from the statement's list, every instance of it: truncation at each byte offset that "
        "is not an event boundary (and of the header), swap of each adjacent pair of events with different clocks, each header byte altered, "
        "removal/alteration of each mandatory metadata key, torn stream.json, substitution of each event's MCV by one of a model the trace did "
        "not require / an unknown code / an unknown model, payload removed or resized on size-checked events, jumbo flag cleared on task-type "
        "events; evaluations = corrupted traces emulated; distinct = (base trace, corruption); non-trivial = all (every corruption is a "
        "different stored state)")
REAL = ["ovniemu (src/emu/**) built from /repo's working tree"]
STUB = ["libovni replaced by the independent trace writer; base traces come from the E2 reference machine and must be accepted first"]
ASSUMPTIONS = ["truncation exactly on an event boundary can leave a valid trace; it is demanded to be rejected only when the reference model rejects the shortened history",
               "which events have their payload size checked is frozen from the property's anchors: payload removed from OHx OAs OAr OM* VT* 6T*, "
               "exact sizes for OAs OAr OM* 6Tc, jumbo flag on VYc/6Yc"]


def gen(rng, tier, idx):
    models = [sf.ALL_MODELS[idx % 7]] + rng.derive("m").sample([m for m in sf.ALL_MODELS if m != sf.ALL_MODELS[idx % 7]], rng.derive("n").randint(0, 2))
    case = sf.base_trace(rng, size="small", models=models)
    case["stride"] = 1
    # every other base trace: streams written by different builds of libovni (legal: the emulator only warns)
    case["mixedlib"] = idx % 2 == 1
    return case


def run(case, ctx):
    w, m, streams = sf.materialise(case)
    if case.get("mixedlib"):
        for i, s in enumerate(streams):
            s.meta["ovni"]["lib"] = {"version": "1.11.%d" % (i % 2), "commit": "verif-%d" % ((i + 1) % 3)}
    exp, why = m.end_verdict()
    info = {"sim_ns": m.now, "size": len(case["actions"]), "ihash": ihash(case["actions"]), "nontrivial": True, "faults": {}, "probes": {},
            "evals": 0, "sample": {"world": w.describe(), "n_actions": len(case["actions"]), "stream_bytes": [len(s.obs_bytes()) for s in streams]}}
    d = ctx.workdir()
    hashes = []
    try:
        tdir = os.path.join(d, "ovni")
        tf.write_trace(tdir, streams)
        status, so, se = ctx.run_tool("ovniemu", [tdir])
        v = emu_verdict(status, se)
        if exp != "accept" or v != "accept":
            # not a usable base (e.g. a don't-care history): nothing to enumerate
            info["probes"]["base trace not usable"] = 1
            r = result(True, **info)
            r["ihash"] = ""
            return r
        models = w.models

        def boundary_truncations():
            """Truncation on an event boundary is only demanded to be rejected when the reference
            model itself rejects the shortened history (e.g. a thread is left alive)."""
            ths = w.threads
            for si, s in enumerate(streams):
                spans = sf.event_spans(s.obs_bytes())
                mine = [ai for ai, a in enumerate(case["actions"]) if ths[a[0]].stream is s]
                for j in range(len(spans)):
                    keep = set(mine[:j])
                    c2 = {"world": case["world"], "actions": [a for ai, a in enumerate(case["actions"]) if ai not in mine or ai in keep]}
                    try:
                        _, m2, _ = sf.materialise(c2)
                    except Exception:
                        continue
                    if m2.end_verdict()[0] != "reject":
                        continue
                    cut = spans[j][0]
                    yield ("truncate:event-boundary", "stream %d truncated on an event boundary to %d bytes (%d events): %s"
                           % (si, cut, j, m2.end_verdict()[1]), si, s.obs_bytes()[:cut], None)

        import itertools
        flags_of = {}

        def breakdown_corruptions():
            """With -b the nOS-V breakdown needs nosv.can_breakdown in every stream: the attribute, or the whole object, gone
            or false must be refused (only when the base trace is accepted under -b in the first place)."""
            if "nosv" not in models:
                return
            st, _, se_ = ctx.run_tool("ovniemu", ["-b", tdir])
            if emu_verdict(st, se_) != "accept":
                return
            for si, s in enumerate(streams):
                for what, mut in (("nosv object removed", lambda m_: m_.pop("nosv", None)),
                                  ("nosv.can_breakdown removed", lambda m_: m_.get("nosv", {}).pop("can_breakdown", None)),
                                  ("nosv.can_breakdown = false", lambda m_: m_.get("nosv", {}).__setitem__("can_breakdown", False))):
                    m2 = copy.deepcopy(s.meta)
                    mut(m2)
                    if m2 == s.meta:
                        continue
                    d_ = "stream %d: %s [ovniemu -b]" % (si, what)
                    flags_of[d_] = ["-b"]
                    yield ("meta:breakdown", d_, si, None, json.dumps(m2).encode())

        NEG_TABLE = ("rank hostname offset_median offset_mean offset_std\n" +
                     "".join("%d %s %d %d.0 1.0\n" % (k, h, -3 * W_BASE, -3 * W_BASE)
                             for k, h in enumerate(sorted({l.hostname for l in w.looms})))).encode()
        nswap = [0]
        for (kind, desc, si, nobs, njson) in itertools.chain(breakdown_corruptions(), sf.single_corruptions(streams, models, Rng(1), case.get("stride", 1)),
                                                             boundary_truncations()):
            changed = []
            if isinstance(si, list):
                for i in si:
                    meta = copy.deepcopy(streams[i].meta)
                    sf.set_path(meta["ovni"], njson, None, remove=True)
                    p = os.path.join(tdir, streams[i].relpath, "stream.json")
                    changed.append((p, streams[i].json_bytes()))
                    open(p, "wb").write(json.dumps(meta).encode())
            else:
                if nobs is not None:
                    p = os.path.join(tdir, streams[si].relpath, "stream.obs")
                    changed.append((p, streams[si].obs_bytes()))
                    open(p, "wb").write(nobs)
                if njson is not None:
                    p = os.path.join(tdir, streams[si].relpath, "stream.json")
                    changed.append((p, streams[si].json_bytes()))
                    open(p, "wb").write(njson)
            status, so, se = ctx.run_tool("ovniemu", flags_of.get(desc, []) + [tdir])
            info["evals"] += 1
            info["faults"][kind] = info["faults"].get(kind, 0) + 1
            if kind == "swap" and not (status == 0 or b"emulation finished ok" in se):
                nswap[0] += 1
                if nswap[0] % 4 == 0:
                    # the same backwards clock under an offset table that moves the whole host before time zero
                    tp = os.path.join(tdir, "clock-offsets.txt")
                    open(tp, "wb").write(NEG_TABLE)
                    status, so, se = ctx.run_tool("ovniemu", [tdir])
                    os.unlink(tp)
                    info["evals"] += 1
                    info["faults"]["swap:under-negative-offsets"] = info["faults"].get("swap:under-negative-offsets", 0) + 1
                    if status == 0 or b"emulation finished ok" in se:
                        desc += " [with an offset table of -3e13 ns for every host]"
            hashes.append(ihash([info["ihash"], desc]))
            okline = b"emulation finished ok" in se
            if not (status == 0 or okline) and kind.startswith(("meta:", "header")) and kind not in ("meta:require-removed", "meta:breakdown"):
                # the same stored state with every model forced on (-a): forcing models on excuses a model
                # nobody required, nothing else
                status, so, se = ctx.run_tool("ovniemu", ["-a", tdir])
                info["evals"] += 1
                info["probes"]["corruption also emulated with all models forced on (-a)"] = info["probes"].get("corruption also emulated with all models forced on (-a)", 0) + 1
                okline = b"emulation finished ok" in se
                if status == 0 or okline:
                    desc += " [ovniemu -a]"
            for p, orig in changed:
                open(p, "wb").write(orig)
            if status == 0 or okline:
                r = result(False, "corruption-emulated-as-ok", "corruption-emulated-as-ok:" + kind,
                           "single corruption not rejected -- %s: ovniemu exit status %s%s\n--- tool stderr (tail) ---\n%s"
                           % (desc, status, " and prints 'emulation finished ok'" if okline else "", se.decode(errors="replace")[-700:]), **info)
                r["det"] = desc
                r["ihashes_nontrivial"] = hashes
                r["corruption"] = desc
                return r
        r = result(True, **info)
        r["ihashes_nontrivial"] = hashes
        r["ihash"] = ""
        return r
    finally:
        ctx.cleanup(d)


SHRINK_LIST = "actions"
