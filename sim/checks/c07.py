"""C07 -- task life-cycle in nOS-V and Nanos6 (DESIGN §4 C07, App. A.4)."""
from .. import mgen

ID = "C07"
LEVEL = "exploration"
RUNS = {"quick": 1500, "thorough": 50000}
RULE = ("seeded task histories for nOS-V and/or Nanos6 processes with 1-4 threads: task types (jumbo), normal and parallel tasks, bodies "
        "executed, paused, resumed, ended, nested over paused (or, Nanos6, running) bodies, migrated between threads, resurrected, while "
        "threads pause/resume and subsystem regions open and close around them; 40% carry one illegal step (resume/end of a non-top body, "
        "body on another thread's stack, pause of a parallel body, nest over a running body, second body of a non-parallel task, re-run of a "
        "non-resurrectable task, wrong body-id convention, unknown task/type, duplicates); distinct = hash of the action list; "
        "non-trivial = at least one body paused, nested or resurrected, or a fault injected")
REAL = ["ovniemu -l (src/emu/**, incl. task.c/body.c) built from /repo's working tree"]
STUB = ["libovni replaced by the independent trace writer sim/tracefmt.py", "traced machine and task/body FSMs = sim/world.py reference model"]
ASSUMPTIONS = ["Nanos6: a task body region is never opened directly over another task body region (the runtime always has a region in between); "
               "such histories are don't-cares", "body id shown for non-parallel nOS-V tasks is 1 (internal convention) and is compared as such"]
SHRINK_LIST = "actions"
shrink_candidates = mgen.shrink_actions


def keys(kind, ty):
    return ty in (10, 11, 12, 13, 14, 15, 35, 36, 37, 38) or (kind == "thread" and ty == 4)


def gen(rng, tier, idx):
    rk = rng.derive("knobs")
    models = rk.choice([["nosv"], ["nanos6"], ["nosv", "nanos6"], ["nosv"], ["nanos6"]])
    desc = mgen.gen_world_desc(rng.derive("world"), nlooms=(1, 1), ncpus=(2, 4), nprocs=(1, 2), nthreads=(1, 4), models=models)
    g = mgen.Gen(rng.derive("workload"), desc, lint=True,
                 knobs={"w_state": 10, "w_aff": 3, "w_region": 22, "w_task": 60, "w_flush": 1, "w_filler": 2, "w_idle": 3,
                        "maxdepth": rk.choice([2, 3, 5])})
    r = rng.derive("faults")
    n = r.choice([15, 50, 120, 300])
    mode = r.weighted([("legal", 60), ("fault", 40)])
    fault_at = (n // 4 + r.below(max(1, 3 * n // 4))) if mode == "fault" else None
    pending = False
    target = r.choice(mgen.Gen.TASK_FAULTS_RARE)
    if "nanos6" in models and r.chance(25):
        target = "nontop_pause"     # only reachable under relaxed nesting
    for i in range(n):
        if i == fault_at:
            pending = True
        if pending and not g.m.decided:
            # wait for the chosen state-dependent fault to become applicable; fall back to any near the end
            if i < n - 3:
                ok = g.fault_task(only=target)
            else:
                ok = g.fault_task()
            if ok:
                pending = False
        g.step()
    g.finish()
    nt = bool(g.faults) or any(k.startswith("nested") or k.startswith("task res") for k in g.probes) or \
        any(a[1][1:] == "Tp" for a in g.actions)
    return {"world": desc, "actions": g.actions, "lint": True, "faults": g.faults, "probes": g.probes, "nontrivial": nt}


def run(case, ctx):
    r = mgen.run_machine_case(case, ctx, keys_filter=keys)
    r["nontrivial"] = case.get("nontrivial", True)
    return r
