"""C07 -- task life-cycle in nOS-V and Nanos6 (DESIGN §4 C07, App. A.4)."""
from .. import mgen

ID = "C07"
LEVEL = "exploration"
RUNS = {"quick": 6000, "thorough": 50000}
RUN_ALARM = 900
RULE = ("seeded task histories for nOS-V and/or Nanos6 processes with 1-4 threads: task types (jumbo), normal and parallel tasks, bodies "
        "executed, paused, resumed, ended, nested over paused (or, Nanos6, running) bodies, migrated between threads, resurrected, while "
        "threads pause/resume and subsystem regions open and close around them; 40% carry one illegal step (resume/end of a non-top body, "
        "body on another thread's stack, pause of a parallel body, nest over a running body, second body of a non-parallel task, re-run of a "
        "non-resurrectable task, wrong body-id convention, unknown task/type, duplicates); distinct = hash of the action list; "
        "non-trivial = at least one body paused, nested or resurrected, or a fault injected")
REAL = ["ovniemu -l (src/emu/**, incl. task.c/body.c) built from /repo's working tree", "task.c/body.c additionally inside aux/task_harness.c (DFS over all op sequences whose prefix is accepted, depth 5 quick / 7 thorough, 32 symbols, 9+ flag pairs)"]
STUB = ["libovni replaced by the independent trace writer sim/tracefmt.py", "traced machine and task/body FSMs = sim/world.py reference model"]
ASSUMPTIONS = ["a task body opened directly over another task body (nesting over a paused task, or relaxed nesting) is a legal history in both "
               "models and is generated and demanded", "body id shown for non-parallel nOS-V tasks is 1 (internal convention) and is compared as such"]
SHRINK_LIST = "actions"
def shrink_candidates(case):
    if case.get("kind") == "sweep":
        if case["depth"] > 2:
            c = dict(case)
            c["depth"] = case["depth"] - 1
            yield c
        return
    for c in mgen.shrink_actions(case):
        yield c


def keys(kind, ty):
    return ty in (10, 11, 12, 13, 14, 15, 35, 36, 37, 38) or (kind == "thread" and ty == 4)


SWEEP_FLAGS = [(6, 6), (6, 1), (1, 6), (1, 1), (12, 12), (0, 15), (4, 4), (2, 8), (15, 0)]


def gen(rng, tier, idx):
    every = 40 if tier == "quick" else 400
    if idx % every == every - 1:
        rs = rng.derive("sweep")
        fl = SWEEP_FLAGS[(idx // every) % len(SWEEP_FLAGS)] if rs.chance(70) else (rs.below(16), rs.below(16))
        return {"kind": "sweep", "flags": list(fl), "depth": 5 if tier == "quick" else 7}
    rk = rng.derive("knobs")
    models = rk.choice([["nosv"], ["nanos6"], ["nosv", "nanos6"], ["nosv"], ["nanos6"]])
    desc = mgen.gen_world_desc(rng.derive("world"), nlooms=(1, 1), ncpus=(2, 4), nprocs=(1, 2), nthreads=(1, 4), models=models)
    g = mgen.Gen(rng.derive("workload"), desc, lint=True,
                 knobs={"w_state": 10, "w_aff": 3, "w_region": 22, "w_task": 60, "w_flush": 1, "w_filler": 2, "w_idle": 3,
                        "maxdepth": rk.choice([2, 3, 5])})
    r = rng.derive("faults")
    n = r.choice([15, 50, 120, 300])
    mode = r.weighted([("legal", 60), ("fault", 40)])
    fault_at = (n // 4 + r.below(max(1, 3 * n // 4))) if mode == "fault" else None
    pending = False
    target = r.choice(mgen.Gen.TASK_FAULTS_RARE)
    if "nanos6" in models and r.chance(25):
        target = "nontop_pause"     # only reachable under relaxed nesting
    for i in range(n):
        if i == fault_at:
            pending = True
        if pending and not g.m.decided:
            # wait for the chosen state-dependent fault to become applicable; fall back to any near the end
            if i < n - 3:
                ok = g.fault_task(only=target)
            else:
                ok = g.fault_task()
            if ok:
                pending = False
        g.step()
    g.finish()
    nt = bool(g.faults) or any(k.startswith("nested") or k.startswith("task res") for k in g.probes) or \
        any(a[1][1:] == "Tp" for a in g.actions)
    return {"world": desc, "actions": g.actions, "lint": True, "faults": g.faults, "probes": g.probes, "nontrivial": nt}


def run_sweep(case, ctx):
    import subprocess
    from .. import taskref
    from ..framework import die_with_parent, result, ihash
    fa, fb = case["flags"]
    ref, paths = taskref.dfs_stream((fa, fb), case["depth"])
    p = subprocess.run([ctx.build.aux("task_harness"), str(fa), str(fb), str(case["depth"])], stdout=subprocess.PIPE, stderr=subprocess.PIPE, timeout=600, preexec_fn=die_with_parent)
    got = p.stdout.decode(errors="replace").strip()
    info = {"sim_ns": 0, "ihash": ihash(case), "nontrivial": True, "evals": len(ref), "size": 1,
            "probes": {"task-module op attempts compared with the reference (bounded-exhaustive)": len(ref)},
            "sample": {"kind": "task module sweep", "flags(task1,task2)": case["flags"], "depth": case["depth"], "attempts": len(ref)}}
    if p.returncode != 0:
        return result(False, "task-harness-crashed", None, "task_harness exit %s\n%s" % (p.returncode, p.stderr.decode(errors="replace")[-800:]), **info)
    if got != ref:
        i = next((i for i in range(min(len(ref), len(got))) if ref[i] != got[i]), min(len(ref), len(got)))
        pth = paths[i] if i < len(paths) else ()
        return result(False, "task-module-disagrees-with-reference", None,
                      "flags (task 1, task 2) = %r: after the accepted prefix, the last op of [%s] is %s by task.c/body.c and %s by the reference"
                      % (case["flags"], taskref.describe(pth), "accepted" if got[i:i + 1] == "1" else "refused", "accepted" if ref[i] == "1" else "refused"), **info)
    return result(True, **info)


def run(case, ctx):
    if case.get("kind") == "sweep":
        return run_sweep(case, ctx)
    r = mgen.run_machine_case(case, ctx, keys_filter=keys)
    r["nontrivial"] = case.get("nontrivial", True)
    return r
