"""C02 -- protocol-conformant programs give valid, accepted traces (DESIGN §4 C02)."""
import json
import os

from .. import rt, rtgen
from .. import tracefmt as tf
from ..framework import result, ihash, emu_verdict

ID = "C02"
LEVEL = "exploration"
RUNS = {"quick": 4000, "thorough": 15000}
RULE = ("seeded programs that follow the documented protocol exactly (version check, proc init, thread init, require, CPUs, OHx, events stamped "
        "with ovni_clock_now() read immediately before each emit, OHe, flush, free, fini) over the real libovni; events the emulator accepts "
        "anywhere (OB. with any payload or as jumbo, marks of defined types, OU[ OU]); jumbo sizes up to the API maximum at every fill level, "
        "in particular 'just-flushed buffer + near-capacity jumbo + the 24 bytes of markers'; real 2 MiB and 4 KiB buffer variants; "
        "distinct = hash of the plan; non-trivial = at least one automatic flush")
REAL = ["src/rt/ovni.c, src/common.c, src/parson.c (ASan+UBSan) and ovniemu -l built from /repo's working tree"]
STUB = ["scheduler, clock, file layer, environment (rt/sched.c, rt/seams.c)", "independent stream validator sim/rtgen.py"]
ASSUMPTIONS = ["threads of a run start less than one hour apart (documented clock gate of the emulator)", "event clocks come from the same monotonic simulated clock as the library's marker clocks (the documented idiom)"]


# model -> (version to require, a payload-free enter/leave pair that is legal on a running thread)
OTHER_MODELS = {"nosv": ("2.4.0", "VAr", "VAR"), "nanos6": ("1.1.0", "6W[", "6W]"), "nodes": ("1.0.0", "DR[", "DR]"),
                "mpi": ("1.0.0", "MUi", "MUI"), "tampi": ("1.0.0", "TCi", "TCI"), "openmp": ("1.1.0", "PBb", "PBB")}


def gen(rng, tier, idx):
    r = rng.derive("plan")
    variant = "small" if r.chance(55) else "real"
    cap = rt.CAP_SMALL if variant == "small" else rt.CAP_REAL
    nth = 2 if r.chance(20) else 1
    knobs = rtgen.base_knobs(rng.derive("knobs"))
    knobs["clock_mode"] = r.choice([3, 3, 1, 2])   # no hour-long jumps: the emulator refuses streams starting > 1 h apart
    g = rtgen.Prog(r, nth, cap, knobs, stale_pct=8)
    cpus = [(i, i * 2) for i in range(r.randint(1, 3))]
    g.start(conformant=True, cpus=cpus)
    if rng.derive("sibling").chance(8) and not knobs.get("symlinks"):
        # a second process of the loom has already written its part of the trace into the same directory
        knobs["sibling"] = "%s:%d:%d" % (rtgen.LOOM, rtgen.PID + 1, 900)
    # 35%: threads also use other models; each thread requires exactly the models whose events it emits
    # (a model is enabled when SOME stream requires it, whichever thread that is)
    rq = rng.derive("require")
    uses = [[] for _ in range(nth)]
    if rq.chance(35):
        for t in range(nth):
            uses[t] = rq.sample(sorted(OTHER_MODELS), rq.choice([0, 1, 1, 2]))
        if nth == 2 and rq.chance(50):
            uses[rq.below(2)] = []          # only one of the two threads requires anything beyond ovni
    for t in range(nth):
        for mname in uses[t]:
            g.plan.op(t, "require", mname, OTHER_MODELS[mname][0])
    n = r.choice([3, 10, 40, 120])
    marks = {}
    depth = [0] * nth
    for t in range(nth):
        if r.chance(60):
            for ty in r.sample(range(100), r.randint(1, 2)):
                st = marks.get(ty, {"stack": r.chance(50)})["stack"]
                marks[ty] = {"stack": st}
                g.plan.op(t, "mark_type", ty, 1 if st else 0, "title %d" % ty)
                if r.chance(50):
                    g.plan.op(t, "mark_label", ty, 1 + r.below(5), "lab")
        g.emit(t, "OHx", "now", tf.i32(t if t < len(cpus) else -1, 0).hex() + "0000000000000000")
        mst = {ty: [] for ty in marks}
        mine = [ty for ty in marks]
        nbound = r.randint(0, 4)
        bound_at = set(r.sample(range(n), min(nbound, n)))
        for i in range(n):
            if i in bound_at:
                kind = r.weighted([("jumbo-near-cap", 45), ("emit", 25), ("jumbo", 20), ("flush", 10)])
                if kind == "jumbo-near-cap":
                    # non-empty or just-flushed buffer, then a jumbo whose total size is CAP - k
                    if r.chance(50):
                        g.flush(t)
                    k = r.randint(1, 40)
                    g.jumbo(t, "OB.", "now", cap - k - 16)
                    continue
                size = {"emit": 12 + r.choice([0] + list(range(2, 17))), "jumbo": 16 + r.choice([0, 8, 100]), "flush": 0}[kind]
                delta = r.randint(-40, 40)
                g.fill_to(t, cap - size - delta, "OB.", "now")
                if kind == "emit":
                    g.emit(t, "OB.", "now", size - 12)
                elif kind == "jumbo":
                    g.jumbo(t, "OB.", "now", size - 16)
                else:
                    g.flush(t)
                continue
            a = r.weighted([("emit", 50), ("jumbo", 15), ("flush", 8), ("mark", 15 if mine else 0), ("unordered", 5), ("attr", 7),
                            ("model", 12 if uses[t] else 0), ("chdir", 1 if nth == 1 else 0)])
            if a == "chdir":
                # the application moves to another working directory in the middle of the run; where the trace goes was
                # settled when the process was initialised
                # (never above the run's own root directory)
                tgt = r.choice(["work", "..", "elsewhere", "."])
                if tgt == ".." and depth[t] == 0:
                    tgt = "work"
                depth[t] += {"work": 1, "elsewhere": 1, "..": -1, ".": 0}[tgt]
                g.plan.op(t, "chdir", tgt)
                continue
            if a == "model":
                _, ev_in, ev_out = OTHER_MODELS[r.choice(uses[t])]
                g.emit(t, ev_in, "now", 0)
                g.emit(t, ev_out, "now", 0)
            elif a == "emit":
                g.emit(t, "OB.", "now", r.choice([0] + list(range(2, 17))))
            elif a == "jumbo":
                g.jumbo(t, "OB.", "now", r.choice([0, 1, 7, 100, 3000]))
            elif a == "flush":
                g.flush(t)
            elif a == "unordered":
                g.emit(t, "OU[", "now", 0)
                g.emit(t, "OU]", "now", 0)
            elif a == "attr":
                g.plan.op(t, "attr_set_str", "app.note", "x y")
                if r.chance(50):
                    g.plan.op(t, "attr_flush")
            else:
                ty = r.choice(mine)
                if marks[ty]["stack"]:
                    if mst[ty] and r.chance(45):
                        g.mark(t, "pop", ty, mst[ty].pop())
                    else:
                        v = 1 + r.below(9)
                        mst[ty].append(v)
                        g.mark(t, "push", ty, v)
                else:
                    g.mark(t, "set", ty, 1 + r.below(9))
        for ty in mine:
            while marks[ty]["stack"] and mst[ty]:
                g.mark(t, "pop", ty, mst[ty].pop())
        g.emit(t, "OHe", "now", 0)
    g.finish(conformant=True)
    if knobs.get("tmpdir") and rng.derive("sibling-rmdir").chance(12):
        # another process of the loom finishes while this one starts: the n-th directory this process creates finds that the
        # (still empty) parent it has just created is gone again
        knobs["sibling_rmdir_nth"] = rng.derive("sibling-rmdir-at").randint(2, 5)
    return {"variant": variant, "plan": g.plan.to_case(), "tids": g.tids, "boundaries": g.boundaries, "cpus": cpus}


def run(case, ctx):
    plan = rt.Plan.from_case(case["plan"])
    d = ctx.workdir()
    try:
        out = rt.run_plan(ctx, plan, d, variant=case["variant"])
        h = out.hist
        nops = sum(len(t) for t in plan.ops)
        writes = [s for s in h.steps if s.call in ("write", "fwrite")]
        info = {"sim_ns": (h.allclocks[-1][2] - 10 ** 9) if h.allclocks else 0, "size": nops, "ihash": ihash(case["plan"]),
                "nontrivial": case["boundaries"] > 0,
                "faults": {"short write": sum(1 for s in writes if 0 < s.ret < s.req)},
                "probes": {"automatic flush (boundary crossed)": case["boundaries"], "buffer:" + case["variant"]: 1,
                           "relocation through OVNI_TMPDIR": 1 if plan.knobs.get("tmpdir") else 0},
                "sample": {"variant": case["variant"], "knobs": plan.knobs, "ops_head": [o for o in plan.ops[0][:12]], "n_ops": nops,
                           "fs_steps": len(h.steps)}}
        if out.status != 0 or h.end != "done":
            if h.abort is not None:
                st, th, op = h.abort
                opd = plan.ops[th][op] if 0 <= th < len(plan.ops) and 0 <= op < len(plan.ops[th]) else "?"
                return result(False, "api-refused-conformant-call", None,
                              "library aborted in thread %d op %d %r\n--- tool stderr (tail) ---\n%s" % (th, op, opd[:4], out.stderr[-600:]), **info)
            return result(False, "runtime-crashed", "runtime-crashed:%s" % out.status,
                          "rtsim status %s end=%s\n--- tool stderr (tail) ---\n%s" % (out.status, h.end, out.stderr[-1500:]), **info)
        for t, tid in enumerate(case["tids"]):
            sd = rtgen.stream_dir(out.root, plan.knobs, tid)
            try:
                obs = open(os.path.join(sd, "stream.obs"), "rb").read()
                meta = json.load(open(os.path.join(sd, "stream.json")))
            except (OSError, ValueError) as e:
                return result(False, "stream-missing-or-bad-json", None, "thread %d: %s" % (tid, e), **info)
            bad = rtgen.validate_stream(obs)
            if bad:
                # name the jumbo size that triggered it, for known-finding matching
                return result(False, bad[0], None, "thread %d (tid %d): %s" % (t, tid, bad[1]), **info)
            o = meta.get("ovni", {})
            want_cpus = [{"index": i, "phyid": p} for (i, p) in case["cpus"]]
            problems = []
            if meta.get("version") != 3: problems.append("version")
            if o.get("part") != "thread": problems.append("ovni.part")
            if o.get("tid") != tid: problems.append("ovni.tid")
            if o.get("pid") != rtgen.PID: problems.append("ovni.pid")
            if o.get("loom") != rtgen.LOOM: problems.append("ovni.loom")
            if o.get("app_id") != 1: problems.append("ovni.app_id")
            if not isinstance(o.get("require"), dict) or "ovni" not in o["require"]: problems.append("ovni.require")
            if o.get("finished") != 1: problems.append("ovni.finished")
            added = [op for op in plan.ops[t] if op[0] == "add_cpu"]
            if added and o.get("loom_cpus") != want_cpus: problems.append("ovni.loom_cpus")
            if problems:
                return result(False, "metadata-incomplete", None, "thread %d: bad or missing %s" % (tid, ", ".join(problems)), **info)
        tdir = os.path.join(out.root, rtgen.tracedir_of(plan.knobs))
        status, so, se = ctx.run_tool("ovniemu", ["-l", tdir])
        v = emu_verdict(status, se)
        if v != "accept":
            return result(False, "emulator-rejects-conformant-trace", None, "ovniemu -l says %s\n--- tool stderr (tail) ---\n%s"
                          % (v, se.decode(errors="replace")[-1200:]), **info)
        return result(True, **info)
    finally:
        ctx.cleanup(d)


def shrink_candidates(case):
    """Remove only ops whose removal keeps the program protocol-conformant."""
    import copy
    ops = case["plan"]["ops"]
    for t in range(len(ops)):
        removable = [i for i, o in enumerate(ops[t])
                     if (o[0] in ("emit", "jumbo") and o[1] == "OB.") or o[0] in ("flush", "attr_set_str", "attr_flush")]
        # keep the final flush
        flushes = [i for i in removable if ops[t][i][0] == "flush"]
        if flushes:
            removable.remove(flushes[-1])
        size = len(removable) // 2
        while size >= 1:
            for a in range(0, len(removable), size):
                drop = set(removable[a:a + size])
                c = copy.deepcopy(case)
                c["plan"]["ops"][t] = [o for i, o in enumerate(ops[t]) if i not in drop]
                for t2 in range(len(ops)):
                    for o in c["plan"]["ops"][t2]:
                        if o[0] == "wait" and int(o[1]) == t and int(o[2]) > 3:
                            o[2] = str(len(c["plan"]["ops"][t]))
                yield c
            size //= 2
    if case["plan"]["knobs"].get("shortw_seed"):
        c = copy.deepcopy(case)
        c["plan"]["knobs"].pop("shortw_seed")
        yield c
