"""C17 -- mark API end-to-end (DESIGN §4 C17, App. A.5)."""
import os
import struct

from .. import rt, rtgen, mgen
from .. import tracefmt as tf
from .. import world as W
from ..framework import result, ihash, emu_verdict
from ..prv import Pvt, PrvError

ID = "C17"
LEVEL = "exploration"
RUNS = {"quick": 8000, "thorough": 15000}
RULE = ("seeded programs of 1-3 threads define mark types (single and stack) and labels (overlapping, agreeing) and set/push/pop values through "
        "the REAL mark API under the simulated scheduler and clock while changing thread state and affinity (OHp/OHr/OHc/OHw/OAs); the streams "
        "libovni leaves are replayed through the reference model in clock order and compared with ovniemu's thread and CPU timelines of type "
        "100+t and with the .pcf sections; 40% of the runs carry one fault: pop that does not match, value 0, undefined type, type or label "
        "redefined in the same thread, wrong operation for the channel type, and across threads different title / channel type / label for "
        "the same value; distinct = hash of the plan; non-trivial = a mark changed while its thread was not running, or two threads share a "
        "type, or a fault was injected")
REAL = ["src/rt/ovni.c (mark API), src/common.c, src/parson.c (ASan+UBSan) and ovniemu (ovni/mark.c) built from /repo's working tree"]
STUB = ["scheduler, clock, file layer (rt/sched.c, rt/seams.c)", "reference model sim/world.py"]
ASSUMPTIONS = ["clock mode 'always +1': event clocks are unique across threads, so the replay order of the reference is the emulator's",
               "each fault must be refused by the runtime (abort with a diagnostic) or by the emulator (exit status 1); which of the two is not prescribed"]


def gen(rng, tier, idx):
    r = rng.derive("plan")
    nth = r.randint(1, 3)
    knobs = rtgen.base_knobs(rng.derive("knobs"), allow_faulty_io=False)
    knobs["clock_mode"] = 1
    variant = "small" if r.chance(70) else "real"
    cap = rt.CAP_SMALL if variant == "small" else rt.CAP_REAL
    g = rtgen.Prog(r, nth, cap, knobs, stale_pct=6)
    ncpu = r.randint(1, 3)
    cpus = [(i, 3 * i + 1) for i in range(ncpu)]
    p = g.plan
    p.op(0, "version_check", "1.11.0")
    p.op(0, "proc_init", 1, rtgen.LOOM, rtgen.PID)
    # the mark types of this run
    types = {}
    for ty in r.sample(range(100), r.randint(1, 3)):
        weird = r.chance(25)
        types[ty] = {"title": ("title of %d" % ty) if not weird else r.choice(["50% done", "%s%s%n", "a b  c", "100%% literal", "tab\there"]) + " %d" % ty,
                     "stack": r.chance(50),
                     "labels": {v: ("L%d" % v) if not weird else r.choice(["Solve 50% done", "100%% literal", "%d %s", "x" * 200, "é ñ"]) + " %d" % v
                                for v in r.sample(range(1, 12), r.randint(0, 4))}}
    rx = rng.derive("extremes")
    if rx.chance(12):
        # labels and titles of the greatest length the emulator accepts (511 characters), and one short of it
        ty = rx.choice(sorted(types))
        for v in list(types[ty]["labels"])[:2]:
            n = rx.choice([511, 511, 510])
            types[ty]["labels"][v] = ("%d:" % v + "y" * 600)[:n]
        if rx.chance(40):
            types[ty]["title"] = ("t%d:" % ty + "T" * 600)[:rx.choice([511, 510])]
    if rx.chance(12):
        # labels for values that need more than 32 bits (hashes, addresses, packed ids), some of them equal to a small
        # labelled value modulo 2^32
        ty = rx.choice(sorted(types))
        for v in rx.sample([2 ** 31 + 5, 2 ** 32 + 7, 2 ** 32 + 1, 2 ** 40 + 1, 2 ** 62 + 3], rx.randint(1, 2)):
            types[ty]["labels"][v] = "big %d" % (v % 1000)
            if rx.chance(50):
                types[ty]["labels"][v % 2 ** 32 or 9] = "small %d" % (v % 1000)
    # values over the whole 64-bit range (labels exist only for positive values: ovni_mark_label refuses the others)
    wide = rx.chance(15)
    WIDE = [-1, -3, -77, -2 ** 31, -2 ** 31 - 1, 2 ** 31, 2 ** 31 + 7, 2 ** 40 + 1, -2 ** 40, 2 ** 62, -2 ** 62]
    fault = r.choice(["pop-mismatch", "zero", "undefined", "redefine-type", "redefine-label", "wrong-op", "x-title", "x-chan", "x-label",
                      "label-undefined"]) if r.chance(40) else None
    if fault in ("x-title", "x-chan", "x-label") and nth < 2:
        nth2 = None
        fault = "pop-mismatch"
    fault_thread = r.below(nth)
    fault_done = False
    definers = {ty: sorted(r.sample(range(nth), r.randint(1, nth))) for ty in types}
    for t in range(nth):
        if t > 0:
            p.op(t, "wait", 0, 2)
        p.op(t, "thread_init", g.tids[t])
        if t == 0:
            for (i, ph) in cpus:
                p.op(t, "add_cpu", i, ph)
        for ty, d in sorted(types.items()):
            if t in definers[ty]:
                title, st = d["title"], d["stack"]
                if fault == "x-title" and t == max(definers[ty]) and len(definers[ty]) >= 2 and not fault_done:
                    title, fault_done = title + " (other)", True
                if fault == "x-chan" and t == max(definers[ty]) and len(definers[ty]) >= 2 and not fault_done:
                    st, fault_done = not st, True
                p.op(t, "mark_type", ty, 1 if st else 0, title)
                labs = sorted(d["labels"].items())
                mine = [lv for lv in labs if r.chance(70)]
                for (v, l) in mine:
                    if fault == "x-label" and t == max(definers[ty]) and len(definers[ty]) >= 2 and not fault_done and \
                            any(True for _ in [0]):
                        l, fault_done = l + "-conflict", True
                        # make sure an earlier definer carries the agreed label
                        p.ops[min(definers[ty])].append(["mark_label", str(ty), str(v), d["labels"][v]])
                    p.op(t, "mark_label", ty, v, l)
                if r.chance(8):
                    # defining a type (or a label) again with the same arguments is allowed, so that nobody has to
                    # check whether it was defined already
                    p.op(t, "mark_type", ty, 1 if st else 0, title)
                    if mine:
                        p.op(t, "mark_label", ty, mine[0][0], mine[0][1] if not (fault == "x-label" and fault_done) else d["labels"][mine[0][0]] + "-conflict")
                if fault == "redefine-type" and t == fault_thread and not fault_done:
                    p.op(t, "mark_type", ty, 1 if st else 0, title + " (again, differently)")
                    fault_done = True
                if fault == "redefine-label" and t == fault_thread and not fault_done and mine:
                    p.op(t, "mark_label", ty, mine[0][0], mine[0][1] + " again")
                    fault_done = True
        if fault == "label-undefined" and t == fault_thread and not fault_done:
            und = next(x for x in range(100) if x not in types)
            p.op(t, "mark_label", und, 3, "nobody defined this type")
            fault_done = True
    # behaviour
    for t in range(nth):
        state = "U"
        stacks = {ty: [] for ty in types}
        cpu = t % ncpu if t < ncpu else -1
        g.emit(t, "OHx", "now", tf.i32(cpu, 0).hex() + "0000000000000000")
        state = "R"
        n = r.choice([3, 10, 30])
        fault_at = r.below(n)
        for i in range(n):
            if fault and not fault_done and t == fault_thread and i == fault_at:
                ty = r.choice(sorted(types))
                d = types[ty]
                if fault == "pop-mismatch":
                    sts = [x for x in types if types[x]["stack"]]
                    if sts:
                        ty = r.choice(sts)
                        if not stacks[ty]:
                            g.mark(t, "push", ty, 5)
                            stacks[ty].append(5)
                        g.mark(t, "pop", ty, stacks[ty][-1] + r.choice([1, 1, 2 ** 32, -2 ** 32, 2 ** 33, 2 ** 40]))
                        # the program goes on as if the pop had worked, so that an emulator that lets it pass
                        # finds nothing else to object to
                        stacks[ty].pop()
                        fault_done = True
                elif fault == "zero":
                    g.mark(t, "push" if d["stack"] else "set", ty, 0)
                    fault_done = True
                elif fault == "undefined":
                    und = next(x for x in range(100) if x not in types)
                    if r.chance(50):
                        # undefined types that alias a defined one when truncated
                        base = r.choice(sorted(types))
                        und = r.choice([65536 + base, -65536 + base, 0x7fff0000 + base, 256 + base, 100 + base, 2 ** 31 - 1, -1, -2 ** 31])
                    g.mark(t, "set", und, 4)
                    fault_done = True
                elif fault == "wrong-op":
                    g.mark(t, "set" if d["stack"] else "push", ty, 6)
                    fault_done = True
                continue
            a = r.weighted([("mark", 55), ("state", 25), ("aff", 8), ("burst", 8), ("flush", 4)])
            if a == "mark":
                ty = r.choice(sorted(types))
                d = types[ty]
                val = r.choice(sorted(d["labels"])) if d["labels"] and r.chance(60) else 1 + r.below(50)
                if wide and r.chance(40):
                    val = r.choice(WIDE)
                if d["stack"]:
                    if stacks[ty] and r.chance(45):
                        g.mark(t, "pop", ty, stacks[ty].pop())
                    else:
                        stacks[ty].append(val)
                        g.mark(t, "push", ty, val)
                else:
                    g.mark(t, "set", ty, val)
            elif a == "state":
                nxt = {"R": ["c", "p"], "C": ["p"], "P": ["w", "r"], "W": ["r"]}[state]
                v = r.choice(nxt)
                # never two running threads on a physical CPU: every thread keeps to its own CPU or the virtual one
                g.emit(t, "OH" + v, "now", 0)
                state = {"c": "C", "p": "P", "w": "W", "r": "R"}[v]
            elif a == "aff" and state in ("R", "C", "W"):
                # move to the virtual CPU or back to the own one
                cpu = -1 if cpu != -1 else (t % ncpu if t < ncpu else -1)
                g.emit(t, "OAs", "now", tf.i32(cpu).hex())
            elif a == "burst":
                g.emit(t, "OB.", "now", 0)
            elif a == "flush":
                g.flush(t)
        if state in ("P", "W"):
            g.emit(t, "OHr", "now", 0)
        for ty in sorted(types):
            while types[ty]["stack"] and stacks[ty]:
                g.mark(t, "pop", ty, stacks[ty].pop())
        g.emit(t, "OHe", "now", 0)
    g.finish(conformant=True)
    return {"variant": variant, "plan": p.to_case(), "tids": g.tids, "cpus": cpus, "fault": fault if fault_done else None,
            "types": {str(k): {"title": v["title"], "stack": v["stack"], "labels": {str(a): b for a, b in v["labels"].items()}} for k, v in types.items()}}


def run(case, ctx):
    plan = rt.Plan.from_case(case["plan"])
    d = ctx.workdir()
    try:
        out = rt.run_plan(ctx, plan, d, variant=case["variant"])
        h = out.hist
        fault = case.get("fault")
        info = {"sim_ns": (h.allclocks[-1][2] - 10 ** 9) if h.allclocks else 0, "size": sum(len(t) for t in plan.ops),
                "ihash": ihash(case["plan"]), "nontrivial": True, "faults": {("fault:" + fault): 1} if fault else {}, "probes": {},
                "sample": {"threads": len(plan.ops), "types": case["types"], "fault": fault, "ops_t0": plan.ops[0][:14]}}
        if out.status in (77, 78) or isinstance(out.status, str):
            return result(False, "runtime-memory-error", None, "rtsim status %s\n--- tool stderr (tail) ---\n%s" % (out.status, out.stderr[-1500:]), **info)
        if h.end == "abort":
            if fault is None:
                st, th, op = h.abort
                return result(False, "runtime-refused-valid-mark-program", None, "aborted in thread %d op %r\n--- tool stderr (tail) ---\n%s"
                              % (th, plan.ops[th][op][:4], out.stderr[-500:]), **info)
            if not out.stderr.strip():
                return result(False, "aborted-without-diagnostic", None, "fault %s: abort without a message" % fault, **info)
            info["probes"]["fault refused at run time"] = 1
            return result(True, **info)
        if h.end != "done":
            return result(False, "runtime-crashed", None, "end=%s status=%s" % (h.end, out.status), **info)
        # build the reference world from what the program declared
        wdesc = {"looms": [{"name": rtgen.LOOM, "phyids": [ph for (_, ph) in case["cpus"]],
                            "procs": [{"pid": rtgen.PID, "appid": 1, "rank": None, "nranks": None, "threads": list(case["tids"])}]}],
                 "models": [], "marks": {}}
        # union of the definitions as the *program* made them (not as intended): conflicts make the reference expect rejection
        defs = {}
        conflict = None
        for t, ops in enumerate(plan.ops):
            for o in ops:
                if o[0] == "mark_type":
                    ty, st, title = int(o[1]), int(o[2]) & 1, o[3]
                    if ty in defs and (defs[ty]["title"] != title or defs[ty]["stack"] != bool(st)):
                        conflict = "type %d defined with different title or channel type" % ty
                    defs.setdefault(ty, {"title": title, "stack": bool(st), "labels": {}})
                elif o[0] == "mark_label":
                    ty, v, lab = int(o[1]), int(o[2]), o[3]
                    if ty in defs:
                        if v in defs[ty]["labels"] and defs[ty]["labels"][v] != lab:
                            conflict = "value %d of type %d labelled differently" % (v, ty)
                        defs[ty]["labels"].setdefault(v, lab)
        wdesc["marks"] = {str(k): {"title": v["title"], "stack": v["stack"], "labels": {str(a): b for a, b in v["labels"].items()}} for k, v in defs.items()}
        w = mgen.build_world(wdesc)
        m = W.Machine(w)
        evs = []
        for t, tid in enumerate(case["tids"]):
            sd = rtgen.stream_dir(out.root, plan.knobs, tid)
            try:
                dec = tf.decode(open(os.path.join(sd, "stream.obs"), "rb").read())
            except (OSError, tf.DecodeError) as e:
                return result(False, "stream-unreadable", None, str(e), **info)
            for off, e in dec:
                evs.append((e.clock, t, off, e))
        evs.sort(key=lambda x: (x[0], x[1], x[2]))
        ths = w.threads
        last = None
        notrun = False
        for (clock, t, off, e) in evs:
            dt = 0 if last is None else clock - last
            last = clock
            if e.mcv.startswith("OM") and ths[t].state != "R":
                notrun = True
            m.emit(ths[t], e.mcv, e.payload, e.jumbo, dt=dt, clock=clock)
        if notrun:
            info["probes"]["mark changed while thread not running"] = 1
        shared = sum(1 for o in plan.ops for x in [0]) and len({t for t, ops in enumerate(plan.ops) for o in ops if o[0] == "mark_type"}) >= 2
        info["nontrivial"] = bool(notrun or shared or fault)
        tdir = os.path.join(out.root, rtgen.tracedir_of(plan.knobs))
        status, so, se = ctx.run_tool("ovniemu", [tdir])
        v = emu_verdict(status, se)
        tail = "\n--- tool stderr (tail) ---\n" + se.decode(errors="replace")[-900:]
        exp, why = m.end_verdict()
        if conflict:
            exp, why = "reject", conflict
        if v.startswith("crash"):
            return result(False, "emulator-crashed", None, "ovniemu %s%s" % (v, tail), **info)
        if fault is not None and exp == "accept":
            # the injected fault did not materialise into something the statement lists (e.g. label chosen equal): nothing to demand
            exp = "dontcare"
        if exp == "reject":
            if v != "reject":
                return result(False, "mark-fault-not-refused", "mark-fault-not-refused:%s" % (fault or "conflict"),
                              "fault %s (%s): neither the runtime nor the emulator refused it (ovniemu says %s)%s" % (fault, why, v, tail), **info)
            info["probes"]["fault refused in emulation"] = 1
            return result(True, **info)
        if exp == "accept" and v != "accept":
            return result(False, "valid-mark-program-rejected", None, "ovniemu says %s%s" % (v, tail), **info)
        if v != "accept":
            return result(True, **info)
        try:
            pvts = {"thread": Pvt(tdir, "thread"), "cpu": Pvt(tdir, "cpu")}
        except (PrvError, OSError) as e:
            return result(False, "output-unparsable", None, str(e), **info)
        errs = W.compare_timelines(m, pvts, lambda k, ty: 100 <= ty < 200 or (k == "thread" and ty == 4))
        if errs:
            return result(False, "mark-timeline-mismatch", None, "\n".join(errs[:6]), **info)
        for kind in ("thread", "cpu"):
            pcf = pvts[kind].pcf
            for ty, dd in defs.items():
                sec = pcf.types.get(100 + ty)
                if sec is None:
                    return result(False, "pcf-mark-type-missing", None, "%s.pcf has no type %d" % (kind, 100 + ty), **info)
                if sec[0] != dd["title"] or sec[1] != dd["labels"]:
                    return result(False, "pcf-mark-labels-wrong", None, "%s.pcf type %d: title %r labels %r, program registered %r %r"
                                  % (kind, 100 + ty, sec[0], sec[1], dd["title"], dd["labels"]), **info)
        return result(True, **info)
    finally:
        ctx.cleanup(d)
