"""C09 -- crash consistency (DESIGN §4 C09): fault enumeration over crash points."""
import json
import os
import shutil

from .. import rt, rtgen
from .. import tracefmt as tf
from ..framework import result, ihash, emu_verdict

ID = "C09"
LEVEL = "fault_enumeration"
RUNS = {"quick": 80, "thorough": 700}
RUN_ALARM = 600
RULE = ("for each seeded protocol-conformant program (1-3 threads, direct and OVNI_TMPDIR modes, several flushes, attr_flush, events legally "
        "flushed after OHe, stream sizes aligned so that event boundaries fall on multiples of the stdio buffer) the fault-free run numbers its "
        "N file-system steps; then EVERY k in 0..N is tried as 'the process is killed before step k', and every write step additionally with "
        "torn variants (killed after 1, n/2, n-1 bytes); readdir order is a per-plan knob (sorted / reverse / shuffled); for single-thread plans every file-system step of thread_free / proc_fini is "
        "additionally made to fail (errno, short transfer, disk full from there on) and, when the runtime aborts, the state it leaves is examined like a kill; evaluations = crash "
        "states examined; distinct = (plan, crash point); non-trivial = the crash happened after some thread had flushed events")
REAL = ["src/rt/ovni.c, src/common.c, src/parson.c (ASan+UBSan) and ovniemu built from /repo's working tree"]
STUB = ["scheduler (explicit schedule replayed from the fault-free run), clock, file layer with process kill (rt/seams.c); tmpfs stores bytes: "
        "what survives a kill is what completed system calls left there (process kill, not power loss)"]
ASSUMPTIONS = ["durability model is process kill: completed write(2) calls survive, stdio buffers die with the process",
               "the directory handed to the emulator is the final trace directory"]


def gen(rng, tier, idx):
    r = rng.derive("plan")
    variant = "small" if r.chance(85) else "real"
    cap = rt.CAP_SMALL if variant == "small" else rt.CAP_REAL
    nth = r.weighted([(1, 55), (2, 30), (3, 15)])
    knobs = rtgen.base_knobs(rng.derive("knobs"), allow_faulty_io=False)
    knobs["clock_mode"] = r.choice([3, 1, 2])
    knobs["stdio_buf"] = r.choice([512, 1024, 1024, 4096])
    if r.chance(65):
        knobs["tmpdir"] = "tmp"
    knobs["readdir"] = r.choice([1, 1, 2, 3 + r.below(100)])
    B = knobs["stdio_buf"]
    g = rtgen.Prog(r, nth, cap, knobs)
    g.start(conformant=True, cpus=[(0, 0), (1, 1), (2, 2)])
    for t in range(nth):
        g.emit(t, "OHx", "now", tf.i32(t, 0).hex() + "0000000000000000")
        for _ in range(r.choice([0, 3, 10, 30])):
            a = r.weighted([("emit", 60), ("jumbo", 15), ("flush", 15), ("attrflush", 10), ("nearcap", 4 if variant == "small" else 0)])
            if a == "nearcap":
                # a jumbo event that leaves no room for the flush markers: the automatic flush takes the rarely
                # used "make room" path (two flushes in a row)
                g.jumbo(t, "OB.", "now", cap - 16 - r.randint(1, 40))
            elif a == "emit":
                g.emit(t, "OB.", "now", r.choice([0, 2, 8, 16]))
            elif a == "jumbo":
                g.jumbo(t, "OB.", "now", r.choice([0, 10, 200]))
            elif a == "flush":
                g.flush(t)
            else:
                g.plan.op(t, "attr_set_double", "app.progress", r.below(100))
                g.plan.op(t, "attr_flush")
        if r.chance(70):
            # align: after OHe (12 bytes) the stream offset is a multiple of the stdio buffer
            tot = g.fill[t].total
            need = (-(tot + 12 + 16)) % B
            if need + 16 + 12 < cap - 64:
                g.jumbo(t, "OB.", "now", need)
        g.emit(t, "OHe", "now", 0)
        g.flush(t)
        if r.chance(75):
            # events legally flushed after OHe
            for _ in range(r.randint(1, 6)):
                g.emit(t, "OB.", "now", r.choice([0, 8]))
            if r.chance(50):
                tot = g.fill[t].total
                need = (-(tot + 16)) % B
                if need + 16 < cap - 64:
                    g.jumbo(t, "OB.", "now", need)
            g.flush(t)
    # finish without the extra flush of Prog.finish: the flushes above are the last ones
    p = g.plan
    for t in range(nth):
        p.op(t, "thread_free")
    for t in range(1, nth):
        p.op(0, "wait", t, len(p.ops[t]))
    p.op(0, "proc_fini")
    return {"variant": variant, "plan": p.to_case(), "tids": g.tids}


def flush_log_len(steps, tid, upto, partial):
    """Bytes a thread successfully handed to write(2) on its own stream before the crash."""
    n = 0
    suffix = "thread.%d/stream.obs" % tid
    for s in steps:
        if s.call != "write" or not s.path.endswith(suffix):
            continue
        if s.k < upto:
            if s.ret > 0:
                n += s.ret
        elif s.k == upto and partial is not None:
            n += min(partial, s.req)
    return n


def examine(ctx, out, plan, case, truth, steps, k, partial, info, what=None):
    """Check one crash state (directory tree left in out.root). Returns a failing result or None."""
    when = what or ("killed before step %d%s" % (k, "" if partial is None else " (+%d bytes of the write)" % partial))
    tdir = os.path.join(out.root, rtgen.tracedir_of(plan.knobs))
    flushed = {tid: flush_log_len(steps, tid, k, partial) for tid in case["tids"]}
    visible = {}
    first_bad = None
    for tid in case["tids"]:
        sd = rtgen.stream_dir(out.root, plan.knobs, tid)
        jp = os.path.join(sd, "stream.json")
        if not os.path.exists(jp):
            continue
        try:
            obs = open(os.path.join(sd, "stream.obs"), "rb").read()
        except OSError:
            obs = None
        try:
            meta = json.load(open(jp))
        except ValueError:
            meta = None
        visible[tid] = (obs, meta)
        fin = isinstance(meta, dict) and isinstance(meta.get("ovni"), dict) and meta["ovni"].get("finished") == 1
        want = truth[tid][:flushed[tid]]
        if fin and obs != want and first_bad is None:
            first_bad = result(False, "finished-before-data-in-place", None,
                          "%s: %s/stream.json says finished=1 but stream.obs next to it has %s bytes, thread had flushed %d"
                          % (when, os.path.relpath(sd, out.root),
                             "no" if obs is None else len(obs), flushed[tid]), **info)
    if not visible:
        return first_bad
    status, so, se = ctx.run_tool("ovniemu", [tdir])
    v = emu_verdict(status, se)
    if v.startswith("crash"):
        return result(False, "emulator-crashed-on-crash-state", "emulator-crashed:" + v, "%s: ovniemu %s\n--- tool stderr (tail) ---\n%s"
                      % (when, v, se.decode(errors="replace")[-800:]), **info)
    if v == "accept":
        for tid, (obs, meta) in visible.items():
            want = truth[tid][:flushed[tid]]
            if obs != want:
                return result(False, "accepted-with-flushed-events-missing", None,
                              "%s: ovniemu reports success, but stream of thread %d visible in the trace directory has %s bytes "
                              "while the thread had flushed %d" % (when, tid,
                                                                   "no" if obs is None else len(obs), flushed[tid]), **info)
        info["probes"]["crash states the emulator accepted (all complete)"] = info["probes"].get("crash states the emulator accepted (all complete)", 0) + 1
    return first_bad


def run(case, ctx):
    plan = rt.Plan.from_case(case["plan"])
    d = ctx.workdir()
    info = {"sim_ns": 0, "size": sum(len(t) for t in plan.ops), "ihash": ihash(case["plan"]), "nontrivial": True,
            "faults": {}, "probes": {}, "evals": 0}
    try:
        base = rt.run_plan(ctx, plan, d, variant=case["variant"])
        h = base.hist
        if base.status != 0 or h.end != "done":
            return result(False, "fault-free-run-failed", None, "status %s end %s\n--- tool stderr (tail) ---\n%s" % (base.status, h.end, base.stderr[-800:]), **info)
        steps = h.steps
        N = len(steps)
        truth = {}
        for tid in case["tids"]:
            truth[tid] = open(os.path.join(rtgen.stream_dir(base.root, plan.knobs, tid), "stream.obs"), "rb").read()
        info["sim_ns"] = h.allclocks[-1][2] - 10 ** 9 if h.allclocks else 0
        info["sample"] = {"variant": case["variant"], "knobs": plan.knobs, "threads": len(plan.ops), "fs_steps": N,
                          "steps_head": [repr(s) for s in steps[:6]], "stream_bytes": {str(k): len(v) for k, v in truth.items()}}
        # replay with the very same schedule
        plan.knobs["sched"] = h.sched or None
        hashes = []
        pending = None
        nontriv = 0
        states = [(k, None) for k in range(N + 1)]
        for s in steps:
            if s.call in ("write", "fwrite") and s.req > 1:
                for j in sorted({1, s.req // 2, s.req - 1}):
                    if 0 < j < s.req:
                        states.append((s.k, j))
        for (k, partial) in states:
            plan.knobs["crash_step"] = k if k < N else None
            plan.knobs["crash_partial"] = partial
            if k == N:
                out = base if False else rt.run_plan(ctx, plan, d, variant=case["variant"])
            else:
                out = rt.run_plan(ctx, plan, d, variant=case["variant"])
            info["evals"] += 1
            if k < N and (out.status != 137 or out.hist.end != "crash"):
                return result(False, "crash-replay-diverged", None, "crash at step %d not reached: status %s end %s\n%s" % (k, out.status, out.hist.end, out.stderr[-500:]), infra=True, **info)
            # the prefix of steps must be identical (determinism of the replayed schedule)
            pre = [repr(s) for s in out.hist.steps[:k]]
            if pre != [repr(s) for s in steps[:k]]:
                return result(False, "crash-replay-diverged", None, "steps before the crash differ from the fault-free run at k=%d" % k, infra=True, **info)
            kind = "kill:" + (steps[k].call if k < N else "end") + ("-torn" if partial is not None else "")
            info["faults"][kind] = info["faults"].get(kind, 0) + 1
            anyflushed = any(flush_log_len(steps, tid, k, partial) > 8 for tid in case["tids"])
            if anyflushed:
                nontriv += 1
                hashes.append(ihash([info["ihash"], k, partial]))
            bad = examine(ctx, out, plan, case, truth, steps, k, partial, info)
            if bad is not None:
                bad["det"] = bad["detail"].split("\n--- tool stderr")[0]
                if bad["vclass"] == "finished-before-data-in-place":
                    # keep scanning: an *accepted* incomplete stream is the stronger clause
                    if pending is None:
                        pending = bad
                    continue
                bad["ihashes_nontrivial"] = hashes
                return bad
        # the process can also die by its own hand: an I/O fault while a thread is being freed (flush, metadata,
        # relocation out of OVNI_TMPDIR) makes the runtime abort, and what it leaves behind is a crash state like any
        # other.  Single-thread plans only: with one thread the bytes flushed are those of the fault-free run.
        if len(plan.ops) == 1:
            from . import c10
            plan.knobs["crash_step"] = None
            plan.knobs["crash_partial"] = None
            for s in steps:
                if plan.ops[s.th][s.op][0] not in ("thread_free", "proc_fini"):
                    continue
                for (name, faults, diskfull) in [("diskfull-from", [], s.k)] + [(n_, [f_], None) for (n_, f_) in c10.faults_for(s, True)]:
                    plan.faults = faults
                    plan.knobs["diskfull_from"] = diskfull
                    out = rt.run_plan(ctx, plan, d, variant=case["variant"])
                    info["evals"] += 1
                    if out.hist.end not in ("abort", "done"):
                        continue
                    # "done": the runtime carried on after the fault; a kill any time later (here: after the last
                    # step) finds this directory
                    kind = "%s-after:%s@%s" % ("abort" if out.hist.end == "abort" else "survived", name, s.call)
                    info["faults"][kind] = info["faults"].get(kind, 0) + 1
                    hashes.append(ihash([info["ihash"], s.k, name]))
                    bad = examine(ctx, out, plan, case, truth, out.hist.steps, 10 ** 9, None, info,
                                  what="fault %s at step %d (%s %s) %s" % (name, s.k, s.call, s.path, "made the runtime abort" if out.hist.end == "abort"
                                                                                 else "was survived and the process was killed after its last step"))
                    if bad is not None:
                        bad["det"] = bad["detail"].split("\n--- tool stderr")[0]
                        if bad["vclass"] == "finished-before-data-in-place":
                            if pending is None:
                                pending = bad
                            continue
                        bad["ihashes_nontrivial"] = hashes
                        return bad
            plan.faults = []
            plan.knobs["diskfull_from"] = None
        # restart in place: a second incarnation of the same program (same loom, PID, TIDs) starts on the trace directory the
        # first one left complete, and is killed at every step in turn.  What is visible afterwards is judged as before; a
        # stream that still is the first incarnation's, whole and untouched, counts as that incarnation's and is left alone.
        if len(plan.ops) == 1 and int(info["ihash"][:4], 16) % 3 == 0 and not plan.knobs.get("symlinks"):
            keep = os.path.join(d, "first-incarnation")
            shutil.copytree(os.path.join(base.root, rtgen.tracedir_of(plan.knobs).rstrip("/")), keep)
            plan.faults = []
            plan.knobs["diskfull_from"] = None
            plan.knobs["restart_from"] = keep
            plan.knobs["sched"] = None
            second = rt.run_plan(ctx, plan, d, variant=case["variant"])
            info["evals"] += 1
            if second.status != 0 or second.hist.end != "done":
                return result(False, "restart-in-place-failed", None, "a second incarnation on the complete trace directory of the first: status %s end %s\n--- tool stderr (tail) ---\n%s"
                              % (second.status, second.hist.end, second.stderr[-600:]), **info)
            steps2 = second.hist.steps
            plan.knobs["sched"] = second.hist.sched or None
            for k in range(len(steps2)):
                plan.knobs["crash_step"] = k
                plan.knobs["crash_partial"] = None
                out = rt.run_plan(ctx, plan, d, variant=case["variant"])
                info["evals"] += 1
                if out.status != 137 or out.hist.end != "crash":
                    continue
                info["faults"]["restart-in-place kill:" + steps2[k].call] = info["faults"].get("restart-in-place kill:" + steps2[k].call, 0) + 1
                hashes.append(ihash([info["ihash"], "restart", k]))
                untouched = True
                for tid in case["tids"]:
                    sd = rtgen.stream_dir(out.root, plan.knobs, tid)
                    try:
                        if open(os.path.join(sd, "stream.obs"), "rb").read() != truth[tid] or \
                                not os.path.exists(os.path.join(sd, "stream.json")):
                            untouched = False
                    except OSError:
                        untouched = False
                if untouched and not plan.knobs.get("tmpdir"):
                    pass
                bad = None if untouched else examine(ctx, out, plan, case, truth, steps2, k, None, info,
                                                     what="second incarnation on the first one's trace directory, killed before step %d (%s %s)"
                                                     % (k, steps2[k].call, steps2[k].path))
                if bad is not None:
                    bad["det"] = bad["detail"].split("\n--- tool stderr")[0]
                    if bad["vclass"] == "finished-before-data-in-place":
                        if pending is None:
                            pending = bad
                        continue
                    bad["ihashes_nontrivial"] = hashes
                    return bad
            plan.knobs["restart_from"] = None
            plan.knobs["crash_step"] = None
        if pending is not None:
            pending["ihashes_nontrivial"] = hashes
            pending["evals"] = info["evals"]
            return pending
        r = result(True, **info)
        r["ihashes_nontrivial"] = hashes
        r["ihash"] = ""
        return r
    finally:
        ctx.cleanup(d)


from .c02 import shrink_candidates
