"""C05 -- CPU occupancy (DESIGN §4 C05, App. A.1)."""
from .. import mgen
from ..framework import result
from .. import world as W

ID = "C05"
LEVEL = "exploration"
RUNS = {"quick": 7000, "thorough": 60000}
RULE = ("seeded histories of thread state and affinity events (OAs/OAr incl. remote moves of paused, cooling and warming "
        "threads, across processes) with more threads than CPUs over 1-3 looms; 30% carry an injected oversubscription or other "
        "illegal move; distinct = hash of the action list; non-trivial = at least one affinity change and two threads "
        "sharing a CPU at some instant")
REAL = ["ovniemu (src/emu/**) built from /repo's working tree"]
STUB = ["libovni replaced by the independent trace writer sim/tracefmt.py", "traced machine = sim/world.py reference model"]
ASSUMPTIONS = ["OAs is generated only on active threads (the emulator is stricter than the statement there; such histories are don't-cares)",
               "global timestamps are unique"]
SHRINK_LIST = "actions"
shrink_candidates = mgen.shrink_actions


def keys(kind, ty):
    return (kind == "cpu" and ty in (1, 2, 3)) or (kind == "thread" and ty in (4, 6))


def gen(rng, tier, idx):
    desc = mgen.gen_world_desc(rng.derive("world"), nlooms=(1, 3), ncpus=(1, 3), nprocs=(1, 2), nthreads=(1, 4), skews=rng.derive("skew").chance(35))
    g = mgen.Gen(rng.derive("workload"), desc, knobs={"w_state": 35, "w_aff": 35, "w_region": 0, "w_flush": 1,
                                                       "w_filler": 4, "w_idle": 0, "p_vcpu": 25})
    r = rng.derive("faults")
    n = r.choice([8, 30, 80, 200, 400])
    mode = r.weighted([("legal", 70), ("fault", 30)])
    fault_at = r.below(n) if mode == "fault" else None
    shared = False
    for i in range(n):
        if i == fault_at:
            for kind in r.sample(["oversub", "oversub", "oversub", "badcpu", "oar_bad", "badtrans"], 6):
                if getattr(g, "fault_" + kind)():
                    g.fault(kind)
                    break
        g.step()
        if not shared:
            for l in g.w.looms:
                for c in l.cpus + [l.vcpu]:
                    if len(c.threads) >= 2:
                        shared = True
    g.finish()
    aff = any(a[1] in ("OAs", "OAr") for a in g.actions)
    return {"world": desc, "actions": g.actions, "faults": g.faults, "probes": g.probes, "nontrivial": aff and shared}


def cross_check(case, w, m, tdir, pvts, verdict, info):
    """Inside the output: at every event time, type 3 of a CPU row equals the
    number of thread rows that are Running with affinity label = that CPU."""
    th, cpu = pvts["thread"], pvts["cpu"]
    upto = m.first_illegal[0] if m.first_illegal else None
    names = {c.row: c.name for c in w.cpu_rows}
    for t in m.ev_times:
        if upto is not None and t >= upto:
            break
        cnt = {}
        for x in w.thread_rows:
            if th.label_at(x.row, 4, t) == "Running":
                lab = th.label_at(x.row, 6, t)
                cnt[lab] = cnt.get(lab, 0) + 1
        cnt = {W.name_key(k): v for k, v in cnt.items()}
        for row, name in names.items():
            name = W.name_key(name)
            if cpu.at(row, 3, t) != cnt.get(name, 0):
                return result(False, "cpu-thread-rows-disagree", None,
                              "at t=%d cpu row %d (%s) reports %d running threads, thread rows say %d"
                              % (t, row, name, cpu.at(row, 3, t), cnt.get(name, 0)), **info)
    return None


def run(case, ctx):
    r = mgen.run_machine_case(case, ctx, keys_filter=keys, post=cross_check)
    r["nontrivial"] = case.get("nontrivial", True)
    return r
