"""C06 -- view consistency under all tracking modes (DESIGN §4 C06, App. A.2)."""
from .. import mgen

ID = "C06"
LEVEL = "exploration"
RUNS = {"quick": 5000, "thorough": 40000}
RULE = ("seeded histories in which threads change state and affinity while publishing values through every tracking mode "
        "(always: ovni flush, kernel context switch, Nanos6 thread type; running: task id/type/rank, idle state, MPI function; "
        "active: all subsystems, marks); 1-3 models enabled per run (swarm); value changes and state/affinity changes are adjacent "
        "(1 ns) in 40% of steps; distinct = hash of the action list; non-trivial = some value changed while its thread was "
        "paused/cooling/warming or migrated")
REAL = ["ovniemu (src/emu/**) built from /repo's working tree"]
STUB = ["libovni replaced by the independent trace writer sim/tracefmt.py", "traced machine = sim/world.py reference model"]
ASSUMPTIONS = ["per-CPU idle default: a CPU row with no unique running thread may show either nothing or 'Resting' for the idle-state quantities",
               "immediate re-entry of the innermost region is never generated here (don't-care, see C08)"]
SHRINK_LIST = "actions"
shrink_candidates = mgen.shrink_actions

ALL_MODELS = ["nosv", "nanos6", "nodes", "mpi", "tampi", "openmp", "kernel"]


def keys(kind, ty):
    return ty >= 7 or (kind == "cpu" and ty in (1, 2, 3)) or (kind == "thread" and ty in (2, 4, 6))


def gen(rng, tier, idx):
    rk = rng.derive("knobs")
    models = rk.sample(ALL_MODELS, rk.randint(1, 3))
    marks = {}
    if rk.chance(50):
        for ty in rk.sample(range(0, 100), rk.randint(1, 2)):
            marks[str(ty)] = {"title": "mark %d" % ty, "stack": rk.chance(50),
                              "labels": {str(v): "label %d" % v for v in rk.sample(range(1, 20), rk.randint(0, 3))}}
    desc = mgen.gen_world_desc(rng.derive("world"), nlooms=(1, 2), ncpus=(1, 3), nprocs=(1, 2), nthreads=(1, 3),
                               models=models, marks=marks, skews=rng.derive("skew").chance(35))
    g = mgen.Gen(rng.derive("workload"), desc,
                 knobs={"w_state": 25, "w_aff": 15, "w_region": 30, "w_task": 12 if ("nosv" in models or "nanos6" in models) else 0,
                        "w_mark": 10 if marks else 0, "w_flush": 4, "w_filler": 3, "w_kernel": 5 if "kernel" in models else 0,
                        "w_idle": 6, "tight": 40 + rk.below(50), "maxdepth": rk.choice([2, 4, 8])})
    n = rk.choice([20, 60, 150, 400])
    if idx % 300 == 177:
        n = rk.choice([3000, 6000])     # marathon: long-lived emulator state (callbacks, stacks, output buffers)
    for i in range(n):
        g.step()
    g.finish()
    return {"world": desc, "actions": g.actions, "faults": g.faults, "probes": g.probes,
            "nontrivial": any(k.startswith("remote migration") or k.startswith("mark changed") for k in g.probes) or
            any(a[1] in ("OHp", "OHc", "OHw") for a in g.actions)}


def run(case, ctx):
    r = mgen.run_machine_case(case, ctx, keys_filter=keys)
    r["nontrivial"] = case.get("nontrivial", True)
    return r
