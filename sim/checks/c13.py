"""C13 -- Paraver output well-formed and self-consistent (DESIGN §4 C13)."""
import os

from .. import mgen
from .. import world as W
from ..framework import result
from ..prv import Pvt, PrvError

ID = "C13"
LEVEL = "exploration"
RUNS = {"quick": 3500, "thorough": 30000}
RULE = ("accepted emulations of seeded legal histories chosen for output diversity: all eight models in rotation (1-4 per run), 1-4 looms, "
        "with/without ranks, with/without -b (breakdown), marks with labels, task types; every .prv/.pcf/.row produced is parsed by an "
        "independent parser and validated; distinct = hash of the action list; non-trivial = at least two models besides ovni or a "
        "breakdown trace or ranks present")
REAL = ["ovniemu [-b] (src/emu/**, pv/*.c) built from /repo's working tree"]
STUB = ["libovni replaced by the independent trace writer sim/tracefmt.py", "traced machine = sim/world.py reference model"]
ASSUMPTIONS = ["only accepted runs are validated (the statement is about accepted traces)",
               "row order is computed independently from the world: looms by name or min rank, processes by rank or PID, threads by TID, CPUs by physical id, virtual CPU last"]
SHRINK_LIST = "actions"
shrink_candidates = mgen.shrink_actions
ALL_MODELS = ["nosv", "nanos6", "nodes", "mpi", "tampi", "openmp", "kernel"]


def gen(rng, tier, idx):
    rk = rng.derive("knobs")
    models = rk.sample(ALL_MODELS, rk.randint(1, 4))
    marks = {}
    if rk.chance(50):
        for ty in rk.sample(range(0, 100), rk.randint(1, 3)):
            marks[str(ty)] = {"title": "mark title %d" % ty, "stack": rk.chance(50),
                              "labels": {str(v): "lab %d" % v for v in rk.sample(range(1, 30), rk.randint(0, 4))}}
    desc = mgen.gen_world_desc(rng.derive("world"), nlooms=(1, 4), ncpus=(1, 4), nprocs=(1, 3), nthreads=(1, 3),
                               models=models, marks=marks, ranks=rk.chance(50), skews=rk.chance(35))
    tasky = "nosv" in models or "nanos6" in models
    g = mgen.Gen(rng.derive("workload"), desc,
                 knobs={"w_state": 15, "w_aff": 10, "w_region": 30, "w_task": 25 if tasky else 0, "w_mark": 10 if marks else 0,
                        "w_flush": 3, "w_filler": 3, "w_kernel": 4 if "kernel" in models else 0, "w_idle": 6,
                        "pause_needs_region": True})
    for i in range(rk.choice([10, 50, 150, 300])):
        g.step()
    g.finish()
    flags = ["-b"] if (tasky and rk.chance(60)) else []
    if rk.chance(30):
        flags.append("-l")
    nt = len(models) >= 2 or bool(flags) or any(p["rank"] is not None for l in desc["looms"] for p in l["procs"])
    return {"world": desc, "actions": g.actions, "emuflags": flags, "faults": g.faults, "probes": g.probes, "nontrivial": nt}


STATE_TYPES = W.LABEL_TYPES


def validate_pvt(pvt, name, last_time, row_names):
    errs = []
    prv = pvt.prv
    prev = -1
    types = set()
    for (t, row, ty, v) in prv.lines:
        if t < prev:
            errs.append("%s.prv: time goes backwards %d -> %d" % (name, prev, t))
            break
        prev = t
        if not (1 <= row <= prv.nrows):
            errs.append("%s.prv: row %d outside 1..%d" % (name, row, prv.nrows))
            break
        types.add(ty)
        if ty in STATE_TYPES and v != 0 and pvt.pcf.label(ty, v) is None and ty in pvt.pcf.types:
            errs.append("%s.prv: value %d of state type %d has no label in the .pcf" % (name, v, ty))
            break
    if prv.duration != last_time:
        errs.append("%s.prv: header duration %d != time of last event %d" % (name, prv.duration, last_time))
    for ty in sorted(types):
        if ty not in pvt.pcf.types:
            errs.append("%s.prv: type %d used but not declared in %s.pcf" % (name, ty, name))
    if pvt.row.declared != prv.nrows:
        errs.append("%s.row declares %d rows, %s.prv header says %d" % (name, pvt.row.declared, name, prv.nrows))
    if len(pvt.row.names) != pvt.row.declared:
        errs.append("%s.row lists %d names but declares %d" % (name, len(pvt.row.names), pvt.row.declared))
    if row_names is not None and [W.name_key(n) for n in pvt.row.names] != [W.name_key(n) for n in row_names]:
        errs.append("%s.row order/names differ: got %r, documented order gives %r" % (name, pvt.row.names[:8], row_names[:8]))
    return errs


def post(case, w, m, tdir, pvts, verdict, info):
    if verdict != "accept":
        return None
    last = m.now
    errs = []
    errs += validate_pvt(pvts["thread"], "thread", last, w.thread_row_names())
    errs += validate_pvt(pvts["cpu"], "cpu", last, w.cpu_row_names())
    nphy = sum(len(l.cpus) for l in w.looms)
    for mod, fname in (("nosv", "nosv-breakdown"), ("nanos6", "nanos6-breakdown")):
        if "-b" in case.get("emuflags", []) and mod in w.models:
            try:
                b = Pvt(tdir, fname)
            except (PrvError, OSError) as e:
                errs.append("cannot parse %s: %s" % (fname, e))
                continue
            errs += validate_pvt(b, fname, last, ["~CPU %4d" % (nphy - i) for i in range(nphy)])
            info["probes"] = dict(info.get("probes", {}), **{"breakdown trace validated": 1})
    if errs:
        return result(False, "paraver-invalid", "paraver-invalid:" + errs[0].split(":")[0] + ":" + errs[0].split(":")[1].strip().split(" ")[0],
                      "\n".join(errs[:8]), **info)
    return None


def run(case, ctx):
    r = mgen.run_machine_case(case, ctx, keys_filter=lambda k, t: False, post=post)
    r["nontrivial"] = case.get("nontrivial", True)
    return r
