"""C08 -- subsystem nesting and value mapping in all eight models (DESIGN §4 C08, App. A.3)."""
from .. import mgen
from .. import world as W

ID = "C08"
LEVEL = "exploration"
RUNS = {"quick": 8000, "thorough": 60000}
RULE = ("seeded nestings of the paired events of ovni flush, nOS-V, Nanos6, NODES, MPI, TAMPI, OpenMP and kernel (1-3 models per run), "
        "random depth, 3% of the runs push to the 512-entry stack limit; 35% carry one fault: leave without enter, mismatched leave, "
        "event in a forbidden thread state, 513th push, or (lint) regions left open at the end; histories that immediately re-enter the "
        "innermost region are don't-cares and only checked for clean termination; distinct = hash of the action list; "
        "non-trivial = nesting depth >= 2 reached or a fault injected")
REAL = ["ovniemu -l / ovniemu (src/emu/**) built from /repo's working tree"]
STUB = ["libovni replaced by the independent trace writer sim/tracefmt.py", "traced machine = sim/world.py reference model",
        "event->label table frozen in data/catalogue.json"]
ASSUMPTIONS = ["immediate re-entry of the innermost region: verdict unspecified by the statement (don't-care)",
               "labels compared through the .pcf of the run, never raw numbers"]
SHRINK_LIST = "actions"
shrink_candidates = mgen.shrink_actions
ALL_MODELS = ["nosv", "nanos6", "nodes", "mpi", "tampi", "openmp", "kernel"]


def keys(kind, ty):
    return ty in (7, 13, 16, 20, 25, 30, 37, 39, 40, 45, 50) or (kind == "thread" and ty == 4)


def gen(rng, tier, idx):
    rk = rng.derive("knobs")
    # rotate through the models so that every pair is exercised often
    first = ALL_MODELS[idx % len(ALL_MODELS)]
    models = [first] + rk.sample([m for m in ALL_MODELS if m != first], rk.randint(0, 2))
    lint = rk.chance(60)
    desc = mgen.gen_world_desc(rng.derive("world"), nlooms=(1, 1), ncpus=(1, 3), nprocs=(1, 2), nthreads=(1, 2), models=models)
    deep = rk.chance(3)
    g = mgen.Gen(rng.derive("workload"), desc, lint=lint,
                 knobs={"w_state": 8, "w_aff": 3, "w_region": 70, "w_task": 0, "w_flush": 4, "w_filler": 2,
                        "w_kernel": 6 if "kernel" in models else 0, "w_idle": 4,
                        "maxdepth": rk.choice([1, 2, 3, 6, 12, 40])})
    r = rng.derive("faults")
    n = r.choice([10, 40, 120, 300])
    if idx % 300 == 211:
        n = r.choice([3000, 6000])      # marathon: thousands of enter/leave pairs on the same few threads
    mode = r.weighted([("legal", 62), ("fault", 26), ("open", 9), ("reenter", 3)])
    fault_at = r.below(n) if mode in ("fault", "reenter") else None
    maxdepth = 0
    used = {}
    for i in range(n):
        if i == fault_at:
            if mode == "fault":
                for kind in r.sample(["pop_mismatch", "pop_mismatch", "pop_empty", "wrong_state", "wrong_state", "outofcpu"], 6):
                    if getattr(g, "fault_" + kind)():
                        g.fault(kind)
                        break
            else:
                reenter(g, r)
        g.step()
    if deep:
        overflow(g, r, beyond=r.chance(50))
    for th in g.th:
        for (m, ch, ty, mode_, st) in g.m.quantities:
            if st:
                maxdepth = max(maxdepth, len(th.chan[(m, ch)]))
    leave = None
    if mode == "open":
        cands = [t for t in g.th if any(t.chan[(m, ch)] for m in g.w.models for ch in W.CATALOGUE[m]["lint"])]
        if cands:
            leave = r.choice(cands)
            g.fault("open-at-end" + ("-lint" if lint else "-nolint"))
    g.finish(leave_open=leave)
    for a in g.actions:
        if a[1][0] != "O":
            used[a[1]] = used.get(a[1], 0) + 1
    # the breakdown trace (-b) is one more consumer of the same channels: nesting rules and the lint check at the end are unaffected by it
    flags = ["-b"] if (("nosv" in models) != ("nanos6" in models) and rng.derive("flags").chance(20)) else []
    return {"world": desc, "actions": g.actions, "lint": lint, "emuflags": flags, "faults": g.faults,
            "probes": dict(g.probes, **{"pair:" + k: v for k, v in used.items()}),
            "nontrivial": bool(g.faults) or any(True for a in g.actions if a[1][0] != "O")}


def reenter(g, r):
    for th in r.sample(g.th, len(g.th)):
        for (m, ch, ty, mode, st) in g.m.quantities:
            if not st or m == "kernel" or not g.model_ok(th, m):
                continue
            stack = th.chan[(m, ch)]
            if stack and stack[-1] != W.TASK_BODY_LABEL.get(m):
                mcv = [p[0] for p in mgen.PUSHES[m] if p[1] == ch and p[2] == stack[-1]]
                if mcv:
                    g.emit(th, mcv[0])
                    g.fault("immediate-reentry(dontcare)")
                    return


def overflow(g, r, beyond):
    """Alternate two regions up to the stack limit; the 513th push must be refused."""
    for th in r.sample(g.th, len(g.th)):
        ms = [m for m in g.w.models if m != "kernel" and g.model_ok(th, m) and mgen.PUSHES[m]]
        if not ms or th.state != "R":
            continue
        m = r.choice(ms)
        ch = mgen.PUSHES[m][0][1]
        cands = [p for p in mgen.PUSHES[m] if p[1] == ch]
        if len(cands) < 2:
            continue
        stack = th.chan[(m, ch)]
        target = W.STACK_LIMIT + (1 if beyond else 0)
        last = stack[-1] if stack else None
        for _ in range(target - len(stack)):
            mcv, _, last = r.choice([p for p in cands if p[2] != last])
            g.emit(th, mcv, dt=1)
        g.fault("stack-overflow" if beyond else "stack-filled-to-limit")
        return


def run(case, ctx):
    r = mgen.run_machine_case(case, ctx, keys_filter=keys)
    r["nontrivial"] = case.get("nontrivial", True)
    return r


def evidence_extra(agg):
    pairs = {k[5:]: v for k, v in agg["probes"].items() if k.startswith("pair:")}
    total = sum(len(v["entries"]) for k, v in W.CATALOGUE.items() if k != "ovni")
    for k in list(agg["probes"]):
        if k.startswith("pair:"):
            del agg["probes"][k]
    return {"catalogued_events_exercised": len(pairs), "catalogued_events_total": total,
            "least_exercised_events": sorted(pairs.items(), key=lambda kv: kv[1])[:5]}
