"""C15 -- metadata merge is distribution-independent; conflicts refused cleanly (DESIGN §4 C15)."""
import copy
import os

from .. import mgen
from .. import tracefmt as tf
from .. import world as W
from ..framework import result, emu_verdict, ihash
from ..prng import Rng
from ..prv import Pvt, PrvError

ID = "C15"
LEVEL = "exploration"
RUNS = {"quick": 5000, "thorough": 30000}
RULE = ("one seeded world (1-4 looms, 1-3 processes, 1-4 threads, ranks or not, shuffled physical ids) is written as 3-6 variants that differ "
        "only in which thread carries app_id, rank/nranks and each (possibly overlapping or repeated) slice of loom_cpus, and in directory "
        "creation order and - in 40% of the variants - in the names of the loom/proc/thread directories (ids come from the metadata, so a renamed "
        "directory only changes the enumeration order); outputs must be byte-identical across variants and rows must follow the documented order; 35% of the worlds add "
        "one contradiction (different app id / rank / nranks inside a process, one CPU index with two physical ids and vice versa, duplicate "
        "TID, loom without CPUs or with a missing CPU index, process without app id) which must end in exit status 1 with a diagnostic; distinct = hash of (world, "
        "distributions); non-trivial = >= 2 threads in some process or loom so that a carrier choice exists")
REAL = ["ovniemu (src/emu/**: system.c, loom.c, proc.c, thread.c, cpu.c) built from /repo's working tree"]
STUB = ["libovni replaced by the independent trace writer sim/tracefmt.py"]
ASSUMPTIONS = ["equal ranks are not among the statement's contradictions: such traces are emulated and ordered by (rank, PID) and (minimum rank, loom name)",
               "partial rank information inside a loom (6% of the ranked multi-process worlds) is not in the statement's list of contradictions, so no "
               "particular verdict is demanded: only that the verdict and the outputs are the same for every distribution, creation order and directory naming"]


def gen(rng, tier, idx):
    r = rng.derive("world")
    desc = mgen.gen_world_desc(r, nlooms=(1, 4), ncpus=(1, 4), nprocs=(1, 3), nthreads=(1, 4), ranks=r.chance(50))
    if desc["looms"] and rng.derive("dup-rank").chance(8):
        # two processes with the same rank (not in the statement's list of contradictions, so the trace is emulated): the
        # order must still come from the metadata (rank, then PID; minimum rank, then loom name), never from the paths
        ranked = [p for l in desc["looms"] for p in l["procs"] if p["rank"] is not None]
        if len(ranked) >= 2:
            rd = rng.derive("dup-rank-which")
            a, b = rd.sample(ranked, 2)
            b["rank"] = a["rank"]
    rp = rng.derive("partial-rank")
    if rp.chance(6):
        cands = [l for l in desc["looms"] if len(l["procs"]) >= 2 and all(p["rank"] is not None for p in l["procs"])]
        if cands:
            l = rp.choice(cands)
            for p in rp.sample(l["procs"], rp.randint(1, len(l["procs"]) - 1)):
                p["rank"] = p["nranks"] = None
            desc["partial_rank"] = True
    rv = rng.derive("variants")
    nvar = rv.randint(3, 6) if tier == "thorough" else rv.randint(3, 4)
    fault = None
    rf = rng.derive("faults")
    if rf.chance(35):
        fault = rf.choice(["appid", "rank", "nranks", "index2phy", "phy2index", "duptid", "nocpus", "noappid", "cpuhole", "duptid-loom"])
    return {"world": desc, "vseeds": [rv.u64() for _ in range(nvar)], "fault": fault, "fseed": rf.u64()}


def distribute(w, rng):
    """Returns list of (relpath-suffix, meta) per thread for one variant."""
    metas = {}
    for l in w.looms:
        lth = [t for p in l.procs for t in p.threads]
        # slices of loom cpus: every cpu carried by >= 1 thread of the loom
        carry = {id(t): [] for t in lth}
        for c in l.cpus:
            k = 1 + (rng.below(len(lth)) if rng.chance(50) else 0)
            for t in rng.sample(lth, min(k, len(lth))):
                carry[id(t)].append((c.index, c.phyid))
        if rng.chance(30):
            # a thread repeating the whole list
            t = rng.choice(lth)
            carry[id(t)] = [(c.index, c.phyid) for c in l.cpus]
        for p in l.procs:
            app = set(rng.sample(range(len(p.threads)), rng.randint(1, len(p.threads))))
            rk = set(rng.sample(range(len(p.threads)), rng.randint(1, len(p.threads))))
            for i, t in enumerate(p.threads):
                cpus = carry[id(t)]
                rng.shuffle(cpus)
                metas[id(t)] = tf.base_meta(l.name, p.pid, t.tid,
                                            app_id=p.appid if i in app else None,
                                            cpus=cpus if cpus else None,
                                            rank=p.rank if (p.rank is not None and i in rk) else None,
                                            nranks=p.nranks if (p.rank is not None and i in rk) else None)
    return metas


def apply_fault(w, metas, fault, rng):
    """Mutate one variant's metadata with one contradiction. Returns (description, extra_streams) or None if not applicable."""
    ths = w.threads
    if fault in ("appid", "rank", "nranks"):
        procs = [p for p in w.procs if len(p.threads) >= 2 and (fault == "appid" or p.rank is not None)]
        if not procs:
            return None
        p = rng.choice(procs)
        a, b = rng.sample(p.threads, 2)
        ma, mb = metas[id(a)]["ovni"], metas[id(b)]["ovni"]
        if fault == "appid":
            ma["app_id"] = p.appid
            # a different number, or something that is no valid app id at all (0, a string) next to the valid one
            mb["app_id"] = rng.choice([p.appid + 1 + rng.below(3), p.appid + 1, 0, 0, "1", -p.appid])
            if rng.chance(50):
                ma["app_id"], mb["app_id"] = mb["app_id"], ma["app_id"]
        elif fault == "rank":
            ma["rank"], ma["nranks"] = p.rank, p.nranks
            mb["rank"], mb["nranks"] = (p.rank + 1) % p.nranks if p.nranks > 1 else None, p.nranks
            if mb["rank"] is None:
                return None
        else:
            ma["rank"], ma["nranks"] = p.rank, p.nranks
            mb["rank"], mb["nranks"] = p.rank, p.nranks + 1
        return "different %s inside process %d" % (fault, p.pid), []
    if fault in ("index2phy", "phy2index"):
        l = rng.choice(w.looms)
        lth = [t for p in l.procs for t in p.threads]
        c = rng.choice(l.cpus)
        t = rng.choice(lth)
        m = metas[id(t)]["ovni"]
        lst = m.get("loom_cpus") or []
        used_phy = {x.phyid for x in l.cpus}
        used_idx = {x.index for x in l.cpus}
        if fault == "index2phy":
            newphy = next(x for x in range(100) if x not in used_phy)
            lst.append({"index": c.index, "phyid": newphy})
            what = "cpu index %d bound to physical ids %d and %d in loom %s" % (c.index, c.phyid, newphy, l.name)
        else:
            newidx = next(x for x in range(100) if x not in used_idx)
            lst.append({"index": newidx, "phyid": c.phyid})
            what = "physical cpu %d bound to indices %d and %d in loom %s" % (c.phyid, c.index, newidx, l.name)
        if rng.chance(50):
            rng.shuffle(lst)
        m["loom_cpus"] = lst
        return what, []
    if fault == "duptid":
        t = rng.choice(ths)
        m = copy.deepcopy(metas[id(t)])
        s = tf.Stream(t.loom.name, t.proc.pid, t.tid, m)
        s.events = list(t.stream.events)
        s.suffix = ".dup"
        return "two streams with tid %d in process %d" % (t.tid, t.proc.pid), [s]
    if fault == "duptid-loom":
        # the same TID in two processes of one loom: a TID names a thread of the node, not of a process
        cands = [l for l in w.looms if len(l.procs) >= 2]
        if not cands:
            return None
        l = rng.choice(cands)
        pa, pb = rng.sample(l.procs, 2)
        ta, tb = rng.choice(pa.threads), rng.choice(pb.threads)
        m = copy.deepcopy(metas[id(tb)])
        m["ovni"]["tid"] = ta.tid
        s = tf.Stream(tb.loom.name, tb.proc.pid, ta.tid, m)
        s.events = list(tb.stream.events)
        s.suffix = ""
        return "tid %d in processes %d and %d of loom %s" % (ta.tid, pa.pid, pb.pid, l.name), [("replace", tb, s)]
    if fault == "nocpus":
        l = rng.choice(w.looms)
        for p in l.procs:
            for t in p.threads:
                metas[id(t)]["ovni"].pop("loom_cpus", None)
        return "loom %s without cpus" % l.name, []
    if fault == "cpuhole":
        # one CPU of the loom is in nobody's list although a higher index is: a CPU is missing
        cands = [l for l in w.looms if len(l.cpus) >= 2]
        if not cands:
            return None
        l = rng.choice(cands)
        victim = rng.choice([c for c in l.cpus if c.index != max(x.index for x in l.cpus)])
        for p in l.procs:
            for t in p.threads:
                lst = metas[id(t)]["ovni"].get("loom_cpus")
                if lst:
                    lst = [e for e in lst if e["index"] != victim.index]
                    if lst:
                        metas[id(t)]["ovni"]["loom_cpus"] = lst
                    else:
                        metas[id(t)]["ovni"].pop("loom_cpus")
        return "loom %s: cpu index %d missing from every list although higher indices are present" % (l.name, victim.index), []
    if fault == "noappid":
        p = rng.choice(w.procs)
        for t in p.threads:
            metas[id(t)]["ovni"].pop("app_id", None)
        return "process %d without app id" % p.pid, []
    return None


class DupStream(tf.Stream):
    pass


def alias_paths(streams, rng):
    """Same streams, other directory names: the ids of looms, processes and threads come from the metadata, so renaming the
    directories changes nothing but the order in which the emulator enumerates (and sorts) the streams."""
    names = {}

    def comp(kind, key, pool):
        if (kind, key) not in names:
            names[(kind, key)] = None
            pool.append((kind, key))
    pool = []
    for s in streams:
        rel = s.relpath.split("/")
        for depth, c in enumerate(rel):
            comp(depth, "/".join(rel[:depth + 1]), pool)
    ks = list(range(len(pool)))
    rng.shuffle(ks)
    style = rng.choice(["%03d", "x%d", "loom.%d"])
    for (kind, key), k in zip(pool, ks):
        names[(kind, key)] = style % k
    out = []
    for s in streams:
        rel = s.relpath.split("/")
        new = "/".join(names[(d, "/".join(rel[:d + 1]))] for d in range(len(rel)))
        a = copy.copy(s)
        a.__class__ = type("Aliased", (s.__class__,), {"relpath": property(lambda self_, new=new: new)})
        out.append(a)
    return out


def run(case, ctx):
    w = mgen.build_world(case["world"])
    m = W.Machine(w)
    # sequential, non-overlapping life of every thread on a physical CPU of its loom
    for k, t in enumerate(w.threads):
        cpu = t.loom.cpus[k % len(t.loom.cpus)]
        m.emit(t, "OHx", mgen.ohx_payload(cpu.index, t.tid), dt=3)
        m.emit(t, "OB.", dt=2)
        m.emit(t, "OHe", dt=5)
    carrier_choice = any(len(p.threads) >= 2 for p in w.procs) or any(sum(len(p.threads) for p in l.procs) >= 2 for l in w.looms)
    info = {"sim_ns": m.now, "size": len(w.threads), "ihash": ihash([case["world"], case["vseeds"], case["fault"]]),
            "nontrivial": carrier_choice, "faults": {}, "probes": {},
            "sample": {"world": w.describe(), "variants": len(case["vseeds"]), "fault": case["fault"]}}
    outs = []
    fault_done = None
    partial = bool(case["world"].get("partial_rank"))
    refusals = []
    if partial:
        info["probes"]["loom with ranked and unranked processes"] = 1
    for vi, vs in enumerate(case["vseeds"]):
        rng = Rng(vs)
        metas = distribute(w, rng.derive("carriers"))
        extra_streams = []
        if case["fault"] and vi == 0:
            fr = apply_fault(w, metas, case["fault"], Rng(case["fseed"]))
            if fr is not None:
                fault_done, extra_streams = fr
                info["faults"]["contradiction:" + case["fault"]] = 1
        streams = []
        replaced = {id(x[1]): x[2] for x in extra_streams if isinstance(x, tuple) and x[0] == "replace"}
        extra_streams = [x for x in extra_streams if not isinstance(x, tuple)]
        for t in w.threads:
            t.stream.meta = metas[id(t)]
            streams.append(replaced.get(id(t), t.stream))
        for s in extra_streams:
            # same tid, different directory
            class S(tf.Stream):
                @property
                def relpath(self_):
                    return "loom.%s/proc.%d/thread.%d.dup" % (self_.loom, self_.pid, self_.tid)
            s.__class__ = S
            streams.append(s)
        order = list(range(len(streams)))
        rng.derive("order").shuffle(order)
        ra = rng.derive("alias")
        if ra.chance(40):
            streams = alias_paths(streams, ra)
            info["probes"]["variant with renamed directories"] = info["probes"].get("variant with renamed directories", 0) + 1
        d = ctx.workdir()
        try:
            tdir = os.path.join(d, "ovni")
            foreign = tf.foreign_paths(Rng(case["world"]["foreign"] ^ vs), streams) if case["world"].get("foreign") else None
            if foreign:
                info["probes"]["event-less stream of a non-thread part present"] = 1
            tf.write_trace(tdir, streams, order=order, foreign=foreign)
            status, out, err = ctx.run_tool("ovniemu", [tdir])
            verdict = emu_verdict(status, err)
            tail = "\n--- tool stderr (tail) ---\n" + err.decode(errors="replace")[-1200:]
            if fault_done and vi == 0:
                if status != 1 or not err.strip():
                    return result(False, "conflict-not-refused-cleanly", "conflict-not-refused-cleanly:%s:%s" % (case["fault"], status),
                                  "contradictory metadata (%s): ovniemu ended with status %s (%s), expected exit status 1 with a diagnostic%s"
                                  % (fault_done, status, verdict, tail), **info)
                continue
            if partial and status == 1 and err.strip():
                refusals.append(vi)
                continue
            if verdict != "accept":
                return result(False, "valid-distribution-" + verdict.split(":")[0], None,
                              "consistent metadata distribution rejected (%s)%s" % (verdict, tail), **info)
            files = {}
            for fn in sorted(os.listdir(tdir)):
                p = os.path.join(tdir, fn)
                if os.path.isfile(p) and fn.split(".")[-1] in ("prv", "pcf", "row"):
                    files[fn] = open(p, "rb").read()
            if not outs and not partial:
                try:
                    pvts = {"thread": Pvt(tdir, "thread"), "cpu": Pvt(tdir, "cpu")}
                except (PrvError, OSError) as e:
                    return result(False, "output-unparsable", None, str(e), **info)
                if [W.name_key(n) for n in pvts["thread"].row.names] != [W.name_key(n) for n in w.thread_row_names()]:
                    return result(False, "thread-row-order", None, "thread.row %r, documented order gives %r"
                                  % (pvts["thread"].row.names, w.thread_row_names()), **info)
                if [W.name_key(n) for n in pvts["cpu"].row.names] != [W.name_key(n) for n in w.cpu_row_names()]:
                    return result(False, "cpu-row-order", None, "cpu.row %r, documented order gives %r"
                                  % (pvts["cpu"].row.names, w.cpu_row_names()), **info)
                errs = W.compare_timelines(m, pvts, lambda k, ty: ty in (1, 2, 3, 4, 6))
                if errs:
                    return result(False, "row-assignment", None, "\n".join(errs[:6]), **info)
            outs.append((vi, files))
        finally:
            ctx.cleanup(d)
    if refusals and outs:
        return result(False, "verdict-depends-on-distribution", None,
                      "the same union of metadata (a loom with ranked and unranked processes) is refused in variants %s and emulated in variants %s, "
                      "which differ only in the carriers of per-process attributes, creation order and directory names"
                      % (refusals, [v for v, _ in outs]), **info)
    if len(outs) >= 2:
        v0, base = outs[0]
        for vi, files in outs[1:]:
            for fn in base:
                if files.get(fn) != base[fn]:
                    return result(False, "depends-on-distribution", None,
                                  "%s differs between metadata distributions/creation orders %d and %d of the same world" % (fn, v0, vi), **info)
        info["probes"]["variants compared byte for byte"] = len(outs)
    return result(True, **info)
