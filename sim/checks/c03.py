"""C03 -- one time-ordered, loss-free replay of all streams (DESIGN §4 C03)."""
import os
import re
import shutil
import struct
import subprocess

from .. import tracefmt as tf
from ..prng import Rng
from ..framework import die_with_parent, result, emu_verdict, ihash
from ..prv import Pvt, PrvError
from ..world import BASE_CLOCK

ID = "C03"
LEVEL = "exploration"
RUNS = {"quick": 6000, "thorough": 40000}
RULE = ("seeded clusters: 1-6 looms on 1-4 hosts with clock skews (up to 50 min with an offset table, < 1 h without), 1-3 processes per loom, "
        "1-4 threads each, stream lengths from 0 (dump tools) / 2 (emulator) to a few hundred events; a global discrete-event scheduler "
        "picks the next thread and advances time by delta >= 0, producing ties across streams on purpose (delta = 0 with probability 1/4, "
        "whole runs with all clocks equal); every world is materialised under >= 2 seeded directory creation orders (tmpfs lists in reverse "
        "creation order); distinct = hash of (world, schedule); non-trivial = >= 2 streams and (a tie across streams or a non-zero skew)")
REAL = ["ovniemu, ovnidump -x, ovnitop (src/emu/**: player.c, heap.h, stream.c, trace.c, system.c, clkoff.c) built from /repo's working tree",
        "heap.h additionally inside aux/heap_harness.c"]
STUB = ["libovni replaced by the independent trace writer sim/tracefmt.py", "directory enumeration order driven through creation order on tmpfs"]
ASSUMPTIONS = ["raw clocks are positive (BASE 1e13 ns); corrected clocks may be negative (5% of the tables shift every host by -2e13 ns, 6% by an amount that puts time zero inside the run)",
               "with equal corrected clocks across streams only the *set* of events per timestamp is compared (the statement leaves tie order open)",
               "ovnidump/ovnitop apply no offsets: what they print is first checked against raw clocks (loss-free, per-stream order, "
               "non-decreasing raw time) and then against corrected time, where the mismatch is the recorded finding O3 (KNOWN_FINDINGS)"]
SHRINK_LIST = "sched"
HOUR = 3600 * 10 ** 9


def gen(rng, tier, idx):
    if idx % 25 == 24:
        rh = rng.derive("heap")
        return {"kind": "heap", "seed": rh.u64() >> 1, "nops": 4000 if tier == "quick" else 50000,
                "maxsize": rh.choice([1, 2, 3, 4, 7, 8, 9, 16, 33, 100]), "range": rh.choice([1, 2, 5, 100, 10 ** 9])}
    r = rng.derive("world")
    nhosts = r.randint(1, 4)
    nlooms = r.randint(nhosts, max(nhosts, 6)) if r.chance(50) else nhosts
    nlooms = min(nlooms, 6)
    use_table = r.chance(65)
    table_mode = r.weighted([("default", 50), ("dash-c", 30), ("partial", 20)]) if use_table else "none"
    skews = []
    for h in range(nhosts):
        if not use_table:
            skews.append(0 if r.chance(40) else r.randint(-HOUR // 3, HOUR // 3))
        else:
            skews.append(r.choice([0, r.randint(-50 * 60 * 10 ** 9, 50 * 60 * 10 ** 9), r.randint(-1000, 1000)]))
    if table_mode == "partial":
        # hosts left out of the table must have a zero skew to keep corrected time = global time
        keep = r.randint(1, nhosts)
        for h in range(keep, nhosts):
            skews[h] = 0
    else:
        keep = nhosts
    # host names where one is a proper prefix of another (node1 / node10), in a shuffled assignment
    hostnames = r.sample(["h1", "h10", "h100", "h2", "h12", "nodeA", "nodeAB"], nhosts) if r.chance(40) else ["h%d" % i for i in range(nhosts)]
    with_ranks = r.chance(35)
    looms = []
    tid = 100
    pid = 10
    # directory names where one is a prefix of another (thread.7 / thread.70, proc.1 / proc.12)
    prefixy = r.chance(40)
    pool_t = []
    pool_p = []
    if prefixy:
        b = r.randint(1, 9)
        pool_t = [b, b * 10 + r.below(10), b * 100 + r.below(100), b * 10 + r.below(10), r.randint(1, 9), r.randint(10, 99)]
        pool_p = [b, b * 10 + r.below(10), r.randint(1, 9), b * 100 + r.below(100)]
        pool_t = sorted(set(pool_t))
        pool_p = sorted(set(pool_p))
        r.shuffle(pool_t)
        r.shuffle(pool_p)
    for i in range(nlooms):
        host = i % nhosts
        name = "%s.%s" % (hostnames[host], "abcdefgh"[i]) if r.chance(70) or nlooms > nhosts else hostnames[host]
        if "." in name and r.chance(25):
            # the host is what precedes the FIRST dot; the rest of the loom name may have dots of its own
            name += r.choice([".1", ".x.y", ".0.0"])
        procs = []
        used_p = set()
        used_t = set()      # a TID names a thread of the node: unique within the loom (finding F30)
        for _ in range(r.randint(1, 3)):
            pid += 1 + r.below(3)
            thispid = pid
            if prefixy and r.chance(60):
                cand = [x for x in pool_p if x not in used_p]
                if cand:
                    thispid = cand[0]
            if thispid in used_p:
                continue
            used_p.add(thispid)
            ths = []
            for _ in range(r.randint(1, 4 if r.chance(30) else 2)):
                tid += 1 + r.below(4)
                t_ = tid
                if prefixy and r.chance(70):
                    cand = [x for x in pool_t if x not in ths and x not in used_t]
                    if cand:
                        t_ = r.choice(cand)
                if t_ not in ths and t_ not in used_t:
                    ths.append(t_)
                    used_t.add(t_)
            procs.append({"pid": thispid, "threads": ths})
        looms.append({"name": name, "host": host, "procs": procs})
    if with_ranks:
        # rank information on every process, placed round-robin or at random over the looms:
        # looms are then ordered by their minimum rank, not by name
        allp = [p for l in looms for p in l["procs"]]
        order = list(range(len(allp)))
        if r.chance(50):
            r.shuffle(order)
        else:
            # round-robin over looms
            byloom = [[p for p in l["procs"]] for l in looms]
            rr = []
            k = 0
            while any(byloom):
                if byloom[k % len(byloom)]:
                    rr.append(byloom[k % len(byloom)].pop(0))
                k += 1
            pos = {id(p): i for i, p in enumerate(allp)}
            order = [pos[id(p)] for p in rr]
        for rank, i in enumerate(order):
            allp[i]["rank"] = rank
            allp[i]["nranks"] = len(allp)
    nthreads = sum(len(p["threads"]) for l in looms for p in l["procs"])
    mode = r.weighted([("emu", 60), ("dump", 40)])
    rs = rng.derive("schedule")
    tie = rs.weighted([("some", 60), ("all", 10), ("none", 30)])
    nev = rs.choice([0, 5, 30, 100, 300]) if mode == "dump" else rs.choice([3, 20, 80, 250])
    sched = []
    for _ in range(nev):
        if tie == "all":
            d = 0
        elif tie == "none":
            d = 1 + rs.below(1000)
        else:
            d = 0 if rs.chance(25) else (1 if rs.chance(40) else rs.below(100000))
        sched.append([rs.below(nthreads), d])
    orders = []
    ro = rng.derive("orders")
    for _ in range(2 if tier == "quick" or ro.chance(70) else 3):
        o = list(range(nthreads))
        ro.shuffle(o)
        orders.append(o)
    rc = rng.derive("layout")
    tablefmt = rc.u64() if (use_table and rc.chance(25)) else 0
    if nlooms >= 2 and rc.chance(8):
        # stream paths that differ only in the case of the loom name: same PIDs and TIDs on every node
        pool = ["nodeA", "NodeA", "nodea", "NODEA", "nOdEa", "NODEa"]
        for i, l in enumerate(looms):
            l["name"] = pool[i] + ".x"
            if i > 0:
                l["procs"] = [{k: (list(v) if isinstance(v, list) else v) for k, v in p.items()} for p in looms[0]["procs"]]
        hostnames = pool[:nlooms]
        nhosts_new = nlooms
        for i, l in enumerate(looms):
            l["host"] = i
        while len(skews) < nlooms:
            skews.append(0)
        if table_mode == "partial":
            table_mode = "default"
        keep = nlooms
        nthreads2 = sum(len(p["threads"]) for l in looms for p in l["procs"])
        sched = [[a % nthreads2, d] for a, d in sched]
        orders = []
        for _ in range(2):
            o = list(range(nthreads2))
            rc.shuffle(o)
            orders.append(o)
    if idx % 500 == 321:
        # more streams than the usual per-process limit of open files (1024, set explicitly for every tool run):
        # nothing may be held per stream that the system rations
        looms = [{"name": hostnames[0] + ".big", "host": 0,
                  "procs": [{"pid": 7 + k, "threads": [5000 * k + 100 + i for i in range(rc.randint(515, 560))]} for k in range(2)]}]
        nthreads2 = sum(len(p["threads"]) for l in looms for p in l["procs"])
        sched = [[a % nthreads2, d] for a, d in sched][:60]
        orders = [list(range(nthreads2)), list(range(nthreads2 - 1, -1, -1))]
        if table_mode == "partial":
            table_mode = "default"
        keep = 1
        tablefmt = 0
    # 5%: the table moves every host by the same extra amount, far enough for all corrected clocks to be negative (times in
    # the output are relative to the first event, so nothing else changes)
    shift = 2 * BASE_CLOCK if (table_mode in ("default", "dash-c") and rc.chance(5)) else 0
    rs = rng.derive("straddle")
    if shift == 0 and table_mode in ("default", "dash-c") and rs.chance(6):
        # 6%: the common shift puts time zero *inside* the run: corrected clocks of the early events are negative, those of
        # the later ones are not, so streams with pending clocks of either sign meet in the merge
        shift = BASE_CLOCK + 1 + sum(d for _, d in sched) * rs.below(9) // 8
    huge = []
    if idx % 400 == 203:
        # a stream of more than 4 GiB: two or three jumbo events of 2-4 GiB each (zero bytes, left as holes of a sparse file)
        mode = "emu"
        huge = rc.sample([2 ** 31 - 1, 2 ** 31, 2 ** 31 + 4096, 2 ** 32 - 1, 3 * 2 ** 30, 2 ** 32 - 4097], rc.randint(2, 3))
        if sum(huge) <= 2 ** 32:
            huge.append(2 ** 32 - 1)
    # 10%: event-less streams that belong to no thread (ovni.part != "thread"), sorting before/between/after the others
    rf = rng.derive("foreign")
    nforeign = rf.u64() if rf.chance(10) else 0
    return {"looms": looms, "skews": skews, "table": table_mode, "keep": keep, "mode": mode, "sched": sched, "orders": orders,
            "tie": tie, "hostnames": hostnames, "foreign": nforeign, "tablefmt": tablefmt, "shapes": rc.chance(50), "huge": huge, "shift": shift,
            "linked": (rc.u64() if rc.chance(4) and not huge and idx % 500 != 321 else 0)}


def build(case):
    """-> streams (list of tf.Stream, creation index order), per-event records, offsets file."""
    threads = []
    for l in case["looms"]:
        for p in l["procs"]:
            for t in p["threads"]:
                threads.append((l, p, t))
    skews = case["skews"]
    streams = []
    for (l, p, t) in threads:
        meta = tf.base_meta(l["name"], p["pid"], t, app_id=1, cpus=[(0, 0)], rank=p.get("rank"), nranks=p.get("nranks"),
                            extra={"ovni": {"mark": {"7": {"title": "seq", "chan_type": "single"}}}})
        s = tf.Stream(l["name"], p["pid"], t, meta)
        streams.append(s)
    emu = case["mode"] == "emu"
    g = 0
    recs = []     # (global, thread index, id)
    uid = 0
    started = [False] * len(threads)
    nthreads = len(threads)
    sched = [s for s in case["sched"] if s[0] < nthreads]

    def clk(ti):
        return BASE_CLOCK + g + skews[threads[ti][0]["host"]]
    if emu:
        # every stream needs at least OHx ... OHe
        for ti in range(nthreads):
            pass
    for (ti, d) in sched:
        g += d
        if emu and not started[ti]:
            started[ti] = True
            streams[ti].events.append(tf.Ev("OHx", clk(ti), struct.pack("<iiQ", -1, threads[ti][2], 0)))
            recs.append((g, ti, None))
            continue
        uid += 1
        if emu:
            streams[ti].events.append(tf.Ev("OM=", clk(ti), tf.i64(uid) + tf.i32(7)))
        else:
            # dump mode runs no model: events of every shape, identified by their position in their stream
            shape = Rng(uid * 1000003 + len(case["sched"])).below(100) if case.get("shapes") else 0
            if shape < 70:
                ev = tf.Ev("OB.", clk(ti), tf.u64(uid))
            elif shape < 80:
                ev = tf.Ev("OB.", clk(ti), b"", tf.u64(uid) + bytes(range(shape - 70)))
            elif shape < 90:
                ev = tf.Ev("OB.", clk(ti), b"", b"")            # a jumbo event without data
            elif shape < 95:
                ev = tf.Ev("OU.", clk(ti), b"")
            else:
                ev = tf.Ev("VTx", clk(ti), tf.u32(uid & 0xffffffff, 0))
            streams[ti].events.append(ev)
        recs.append((g, ti, uid))
    if emu:
        for ti in range(nthreads):
            if not started[ti]:
                g += 1
                streams[ti].events.append(tf.Ev("OHx", clk(ti), struct.pack("<iiQ", -1, threads[ti][2], 0)))
                recs.append((g, ti, None))
        for ti in range(nthreads):
            g += 1
            streams[ti].events.append(tf.Ev("OHe", clk(ti)))
            recs.append((g, ti, None))
        if case.get("huge"):
            # the big events sit right after the first event of the first stream, at its clock
            ev0 = streams[0].events[0]
            streams[0].events[1:1] = [tf.HoleEv("OB.", ev0.clock, n) for n in case["huge"]]
    # offsets table
    table = None
    if case["table"] != "none":
        lines = ["rank       hostname             offset_median        offset_mean         offset_std\n"]
        hosts = sorted({l["host"] for l in case["looms"]})
        n = 0
        for h in hosts:
            if h >= case["keep"]:
                continue
            name = case.get("hostnames", ["h%d" % i for i in range(8)])[h]
            off = -skews[h] - case.get("shift", 0)
            lines.append("%-10d %-20s %-20d %-19.3f %.3f\n" % (n, name, off, float(off), 1.5))
            n += 1
        if case.get("tablefmt"):
            # the same table in another layout the parser reads identically (fields are blank-separated, leading
            # blanks and empty lines are skipped): right-aligned columns, indentation of some or all entries, tabs
            rf = Rng(case["tablefmt"])
            style = rf.choice(["right", "indent-some", "indent-all", "tabs", "tight", "empty-lines"])
            out = [lines[0]]
            for k, ln in enumerate(lines[1:]):
                f = ln.split()
                if style == "right":
                    ln = "%*s %20s %20s %19s %s\n" % (rf.choice([2, 4, 10]) if k < 10 else 2, f[0], f[1], f[2], f[3], f[4])
                elif style == "indent-some":
                    ln = (rf.choice(["", " ", "  ", "\t", "    "]) if k else " ") + ln
                elif style == "indent-all":
                    ln = "  " + ln
                elif style == "tabs":
                    ln = "\t".join(f) + "\n"
                elif style == "tight":
                    ln = " ".join(f) + "\n"
                else:
                    ln = ("\n" if rf.chance(50) else "") + ln
                out.append(ln)
            if rf.chance(30):
                out.append("\n")
            lines = out
        table = "".join(lines).encode()
    return threads, streams, recs, table, g


def corrected(case, threads, ti, g):
    """corrected time the emulator should assign = global (when the table covers the host) else raw."""
    if case["table"] == "none":
        return g + case["skews"][threads[ti][0]["host"]]
    return g


def run_heap(case, ctx):
    exe = ctx.build.aux("heap_harness")
    p = subprocess.run([exe, str(case["seed"]), str(case["nops"]), str(case["maxsize"]), str(case["range"])],
                       stdout=subprocess.PIPE, stderr=subprocess.PIPE, timeout=120, preexec_fn=die_with_parent)
    out = p.stdout.decode(errors="replace").strip()
    info = {"sim_ns": 0, "ihash": ihash(case), "nontrivial": True, "evals": 1,
            "probes": {"heap operations checked against a sorted multiset": case["nops"]},
            "sample": {"kind": "heap sequence", "seed": case["seed"], "maxsize": case["maxsize"], "keyrange": case["range"], "result": out}}
    if p.returncode != 0 or not out.startswith("OK"):
        return result(False, "heap-invariant", None, "heap_harness %r: %s %s" % (case, out, p.stderr.decode(errors="replace")[-500:]), **info)
    return result(True, **info)


def run(case, ctx):
    if case.get("kind") == "heap":
        return run_heap(case, ctx)
    threads, streams, recs, table, gend = build(case)
    nstreams = len(streams)
    ties = False
    seen = {}
    for (g, ti, u) in recs:
        c = corrected(case, threads, ti, g)
        if c in seen and seen[c] != ti:
            ties = True
        seen.setdefault(c, ti)
    info = {"sim_ns": gend, "size": len(case["sched"]), "ihash": ihash([case["looms"], case["sched"], case["skews"], case["table"]]),
            "nontrivial": nstreams >= 2 and (ties or any(case["skews"])),
            "faults": {"clock-skew:" + ("table" if case["table"] != "none" else "no-table"): 1 if any(case["skews"]) else 0,
                       "ties-across-streams": 1 if ties else 0, "enumeration-orders": len(case["orders"]),
                       "offset-table:" + case["table"]: 1},
            "probes": {"empty stream (dump mode)": sum(1 for s in streams if not s.events)},
            "sample": {"looms": [(l["name"], [(p["pid"], p["threads"]) for p in l["procs"]]) for l in case["looms"]],
                       "skews_ns": case["skews"], "offset_table": case["table"], "mode": case["mode"],
                       "schedule_head": case["sched"][:10], "n_events": len(recs)}}
    if case.get("huge"):
        info["probes"]["stream larger than 4 GiB (sparse)"] = 1
    if nstreams > 1024:
        info["probes"]["more streams than the soft open-file limit (1024)"] = 1
    outs = []
    xdevs = []
    for oi, order in enumerate(case["orders"]):
        order = [o for o in order if o < nstreams]
        d = ctx.workdir()
        try:
            tdir = os.path.join(d, "ovni")
            extra = {}
            flags = []
            if table is not None:
                if case["table"] == "dash-c":
                    with open(os.path.join(d, "offs.txt"), "wb") as f:
                        f.write(table)
                    flags = ["-c", os.path.join(d, "offs.txt")]
                else:
                    extra["clock-offsets.txt"] = table
            foreign = tf.foreign_paths(Rng(case["foreign"]), streams) if case.get("foreign") else None
            if foreign:
                info["probes"]["event-less stream of a non-thread part present"] = 1
            links = None
            if case.get("linked"):
                # one loom (or process) directory lives elsewhere and is reached through a symbolic link inside the trace
                # directory, as when per-node traces are gathered by linking; on another file system when there is one
                rl = Rng(case["linked"])
                s0 = rl.choice(streams)
                parts = s0.relpath.split("/")
                key = "/".join(parts[:rl.choice([1, 2])])
                side = os.path.join(d, "elsewhere")
                if rl.chance(60):
                    xd = "/tmp/ovni-verif-xdev.%d.%d" % (os.getpid(), oi)
                    try:
                        os.makedirs(xd, exist_ok=True)
                        if os.stat(xd).st_dev != os.stat(d).st_dev:
                            side = xd
                            xdevs.append(xd)
                            info["probes"]["part of the trace behind a symlink to another file system"] = 1
                        else:
                            os.rmdir(xd)
                    except OSError:
                        pass
                links = {key: side}
                info["probes"]["part of the trace behind a symlink"] = 1
            tf.write_trace(tdir, streams, order=order, extra_files=extra, foreign=foreign, links=links)
            observed = tf.observed_order(tdir)
            if case["mode"] == "dump":
                r = check_dump(ctx, tdir, case, threads, streams, recs, info)
                if r is not None:
                    return r
                outs.append(("dump", observed))
                continue
            targ, tcwd = ctx.spell(tdir, int(info["ihash"][:6], 16) + oi)
            status, out, err = ctx.run_tool("ovniemu", flags + [targ], cwd=tcwd)
            verdict = emu_verdict(status, err)
            tail = "\n--- tool stderr (tail) ---\n" + err.decode(errors="replace")[-1200:]
            if verdict != "accept":
                return result(False, "valid-cluster-trace-" + verdict.split(":")[0], None,
                              "sorted streams with consistent offsets: ovniemu says %s (enumeration %r)%s" % (verdict, observed, tail), **info)
            try:
                th = Pvt(tdir, "thread")
            except (PrvError, OSError) as e:
                return result(False, "output-unparsable", None, str(e), **info)
            # expected: every OM= value once at corrected - first
            cs = [corrected(case, threads, ti, g) for (g, ti, u) in recs]
            t0 = min(cs)
            exp = {}
            for (g, ti, u), c in zip(recs, cs):
                if u is not None:
                    exp[u] = c - t0
            got = {}
            prev = -1
            for (t, row, ty, v) in th.prv.lines:
                if t < prev:
                    return result(False, "prv-time-backwards", None, "thread.prv time %d after %d" % (t, prev), **info)
                prev = t
                if ty == 107 and v != 0:
                    if v in got:
                        return result(False, "event-replayed-twice", None, "mark value %d appears twice in thread.prv" % v, **info)
                    got[v] = t
            if set(got) != set(exp):
                miss = sorted(set(exp) - set(got))[:5]
                extra_ = sorted(set(got) - set(exp))[:5]
                return result(False, "event-lost-or-invented", None, "missing %r, unexpected %r" % (miss, extra_), **info)
            bad = [(u, got[u], exp[u]) for u in sorted(exp) if got[u] != exp[u]]
            if bad:
                return result(False, "wrong-corrected-time", None,
                              "event id %d written at time %d, corrected time minus first corrected time is %d (offset table %s, skews %r)"
                              % (bad[0][0], bad[0][1], bad[0][2], case["table"], case["skews"]), **info)
            if th.prv.duration != max(cs) - t0:
                return result(False, "wrong-duration", None, "duration %d, expected %d" % (th.prv.duration, max(cs) - t0), **info)
            files = {}
            for fn in sorted(os.listdir(tdir)):
                p = os.path.join(tdir, fn)
                if os.path.isfile(p) and fn.split(".")[-1] in ("prv", "pcf", "row"):
                    files[fn] = open(p, "rb").read()
            outs.append((files, observed))
        finally:
            ctx.cleanup(d)
            for xd in xdevs:
                shutil.rmtree(xd, ignore_errors=True)
            del xdevs[:]
    if case["mode"] == "emu" and len(outs) >= 2:
        base, obs0 = outs[0]
        for files, obs in outs[1:]:
            for fn in base:
                if files.get(fn) != base[fn]:
                    return result(False, "depends-on-enumeration-order", None,
                                  "%s differs between directory orders %r and %r" % (fn, obs0, obs), **info)
        if any(o[1] != obs0 for o in outs[1:]):
            info["probes"]["outputs compared across different observed enumeration orders"] = 1
    return result(True, **info)


LINE = re.compile(r"^\s*(-?\d+)\s+(\S{3})\s+(\S+)\s*(.*)$")


def check_dump(ctx, tdir, case, threads, streams, recs, info):
    targ, tcwd = ctx.spell(tdir, int(info["ihash"][:6], 16))
    status, out, err = ctx.run_tool("ovnidump", ["-x", targ], cwd=tcwd)
    if status != 0:
        return result(False, "ovnidump-failed", None, "ovnidump exit %s\n--- tool stderr (tail) ---\n%s" % (status, err.decode(errors="replace")[-800:]), **info)
    seq = []
    for line in out.decode(errors="replace").splitlines():
        m = LINE.match(line)
        if not m:
            return result(False, "ovnidump-bad-line", None, "unparsable line %r" % line, **info)
        clock, mcv, rel, hexs = int(m.group(1)), m.group(2), m.group(3), m.group(4)
        data = bytes(int(x, 16) for x in hexs.split(":")[1:]) if hexs else b""
        seq.append((clock, mcv, rel, data))
    # every stream's events exactly once and in stream order, the whole in non-decreasing raw time
    bystream = {}
    prev = None
    for (clock, mcv, rel, data) in seq:
        if prev is not None and clock < prev:
            return result(False, "dump-not-time-ordered", None, "raw clock %d printed after %d" % (clock, prev), **info)
        prev = clock
        bystream.setdefault(rel, []).append((clock, mcv, data))
    known = {s.relpath for s in streams}
    for rel in bystream:
        if rel not in known:
            return result(False, "dump-wrong-attribution", None, "ovnidump prints events of a stream %r the trace does not have" % rel, **info)
    for s in streams:
        got = bystream.get(s.relpath, [])
        want = [(e.clock, e.mcv, e) for e in s.events]
        if len(got) != len(want):
            return result(False, "dump-lost-or-duplicated", None, "stream %s: ovnidump printed %d events, the stream has %d"
                          % (s.relpath, len(got), len(want)), **info)
        for k, ((gc, gm, gd), (wc, wm, e)) in enumerate(zip(got, want)):
            if e.jumbo is None:
                okdata = gd == e.payload
            else:
                okdata = gd in (e.jumbo, struct.pack("<I", len(e.jumbo)) + e.jumbo)
            if (gc, gm) != (wc, wm) or not okdata:
                return result(False, "dump-stream-order-broken" if (gc, gm) != (wc, wm) else "dump-wrong-attribution", None,
                              "stream %s: event #%d printed as %s@%d with %d data bytes, the stream has %s@%d with %d"
                              % (s.relpath, k, gm, gc, len(gd), wm, wc, len(e.payload if e.jumbo is None else e.jumbo)), **info)
    status, out, err = ctx.run_tool("ovnitop", [tdir])
    if status != 0:
        return result(False, "ovnitop-failed", None, "ovnitop exit %s" % status, **info)
    counts = {}
    for line in out.decode(errors="replace").splitlines():
        m = re.match(r"^(...)\s+(\d+)$", line)
        if m:
            counts[m.group(1)] = int(m.group(2))
    want = {}
    for s in streams:
        for e in s.events:
            want[e.mcv] = want.get(e.mcv, 0) + 1
    if counts != want:
        return result(False, "ovnitop-wrong-counts", None, "ovnitop says %r, trace has %r" % (counts, want), **info)
    # last of all (so that nothing else is hidden behind it): the statement asks for corrected time, i.e. stream clock plus
    # the offset of the stream's host, when the trace directory carries an offset table
    if case["table"] in ("default", "partial"):
        host_of = {s.relpath: threads[i][0]["host"] for i, s in enumerate(streams)}
        prevc = None
        for (clock, mcv, rel, data) in seq:
            h = host_of[rel]
            c = clock - (case["skews"][h] if h < case["keep"] else 0)
            if prevc is not None and c < prevc[0]:
                return result(False, "dump-ignores-offset-table", "dump-ignores-offset-table",
                              "clock-offsets.txt is in the trace directory, but ovnidump merges the streams by raw clock: %s@%d (corrected %d) is printed "
                              "after %s@%d (corrected %d)" % (rel, clock, c, prevc[1], prevc[2], prevc[0]), **info)
            prevc = (c, rel, clock)
    return None


def shrink_candidates(case):
    if case.get("kind") == "heap":
        return
    # drop a whole thread from the last loom/proc
    import copy
    c = copy.deepcopy(case)
    for l in reversed(c["looms"]):
        for p in reversed(l["procs"]):
            if len(p["threads"]) > 1 or len(l["procs"]) > 1 or len(c["looms"]) > 1:
                p["threads"].pop()
                if not p["threads"]:
                    l["procs"].remove(p)
                if not l["procs"]:
                    c["looms"].remove(l)
                n = sum(len(pp["threads"]) for ll in c["looms"] for pp in ll["procs"])
                c["sched"] = [s for s in c["sched"] if s[0] < n]
                yield c
                return
