"""C20 -- breakdown view (DESIGN §4 C20, App. A.6)."""
import os
import subprocess

from .. import mgen
from .. import world as W
from ..framework import die_with_parent, result
from ..prv import Pvt, PrvError

ID = "C20"
LEVEL = "exploration"
RUNS = {"quick": 3500, "thorough": 30000}
RULE = ("seeded nOS-V / Nanos6 worlds with 1-8 physical CPUs emulated with -b: workers follow the runtimes' grammar (worker region, scheduler, "
        "task bodies, API/blocking regions around pauses, progress states Progressing/Resting/Absorbing) while threads pause, migrate and "
        "leave CPUs empty; at every event time the breakdown rows are compared with the reference per-CPU values (as a multiset, by label), "
        "row order must be non-decreasing and no written line may repeat a row's value; thorough adds the in-process sweep over sort_replace; "
        "distinct = hash of the action list; non-trivial = >= 2 physical CPUs and at least one task body executed")
REAL = ["ovniemu -b (src/emu/**, incl. sort.c, */breakdown.c, mux.c) built from /repo's working tree",
        "sort.c additionally inside aux/sort_harness.c (thorough tier)"]
STUB = ["libovni replaced by the independent trace writer sim/tracefmt.py", "traced machine = sim/world.py reference model"]
ASSUMPTIONS = ["task bodies are paused only under an API/blocking region (the runtimes' grammar); the value of a CPU whose body is paused with no "
               "region above it is not defined by the statement", "a physical CPU with no running thread may show nothing or the idle default 'Resting'"]
SHRINK_LIST = "actions"


def shrink_candidates(case):
    if case.get("kind", "").startswith("sort-"):
        return
    for c in mgen.shrink_actions(case):
        yield c
BTYPE = {"nosv": (17, "nosv-breakdown", 11, 13, 16), "nanos6": (41, "nanos6-breakdown", 36, 37, 40)}


def gen(rng, tier, idx):
    every = 40 if tier == "quick" else 400
    if idx % every == every - 1:
        rs = rng.derive("sweep")
        if (idx // every) % 2 == 0:
            return {"kind": "sort-replace", "maxn": 5 if tier == "quick" else 7, "maxv": 4}
        return {"kind": "sort-bay", "seed": rs.u64() >> 1, "n": rs.choice([1, 2, 3, 5, 8]), "steps": 3000 if tier == "quick" else 50000,
                "maxv": rs.choice([1, 2, 4, 1000])}
    rk = rng.derive("knobs")
    model = rk.choice(["nosv", "nanos6"])
    models = [model] + (["kernel"] if rk.chance(10) else [])
    ncpus = (1, 4)
    if rk.chance(2):
        ncpus = rk.choice([(64, 64), (63, 66), (100, 130)])     # row counts around multiples of 64
    desc = mgen.gen_world_desc(rng.derive("world"), nlooms=(1, 2), ncpus=ncpus, nprocs=(1, 2), nthreads=(1, 4), models=models)
    g = mgen.Gen(rng.derive("workload"), desc,
                 knobs={"w_state": 14, "w_aff": 8, "w_region": 25, "w_task": 40, "w_flush": 1, "w_filler": 1, "w_idle": 12,
                        "w_kernel": 0, "pause_needs_region": True, "maxdepth": rk.choice([2, 3, 5]), "p_vcpu": 8,
                        # 4% of the runs may close a region over a still-paused body (outside the runtimes' grammar, see DESIGN O1)
                        "offgrammar_pop": rk.chance(4)})
    for i in range(rk.choice([20, 80, 200, 400])):
        g.step()
    g.finish()
    ncpu = sum(len(l["phyids"]) for l in desc["looms"])
    nt = ncpu >= 2 and any(a[1][1:] == "Tx" for a in g.actions)
    return {"world": desc, "actions": g.actions, "emuflags": ["-b"], "model": model, "faults": g.faults, "probes": g.probes,
            "nontrivial": nt}


def expected_values(w, m, model):
    """Reference per-physical-CPU breakdown value sets at the current instant."""
    out = []
    for l in w.looms:
        for cpu in l.cpus:
            run = [t for t in cpu.threads if t.state == "R"]
            if len(run) != 1:
                out.append(frozenset([None, "Resting"]))
                continue
            u = run[0]
            ss = m.raw(u, model, "CH_SUBSYSTEM")
            tt = m.raw(u, model, "CH_TYPE")
            idle = m.raw(u, model, "CH_IDLE")
            if ss == W.TASK_BODY_LABEL[model] and tt is not None:
                tr = tt
            elif ss is not None:
                tr = ss
            else:
                tr = "Unknown subsystem"
            out.append(frozenset([tr if idle == "Progressing" else idle]))
    return out


def run_sweep(case, ctx):
    from ..framework import ihash
    exe = ctx.build.aux("sort_harness")
    if case["kind"] == "sort-replace":
        args = ["replace", str(case["maxn"]), str(case["maxv"])]
    else:
        args = ["bay", str(case["seed"]), str(case["n"]), str(case["steps"]), str(case["maxv"])]
    p = subprocess.run([exe] + args, stdout=subprocess.PIPE, stderr=subprocess.PIPE, timeout=600, preexec_fn=die_with_parent)
    out = p.stdout.decode(errors="replace").strip()
    n = int(out.split("cases=")[1]) if "cases=" in out else case.get("steps", 1)
    info = {"sim_ns": 0, "ihash": ihash(case), "nontrivial": True, "evals": n, "size": 1,
            "probes": {"sort module cases checked (%s)" % case["kind"]: n},
            "sample": {"kind": case["kind"], "args": args, "result": out[:100]}}
    if p.returncode != 0 or not out.startswith("OK"):
        return result(False, "sort-module-wrong", "sort-module-wrong:" + case["kind"], "sort_harness %s: %s\n%s" % (" ".join(args), out[-400:], p.stderr.decode(errors="replace")[-600:]), **info)
    return result(True, **info)


def run(case, ctx):
    if case.get("kind", "").startswith("sort-"):
        return run_sweep(case, ctx)
    model = case["model"]
    btype, fname, _, _, _ = BTYPE[model]
    # re-run the reference alongside, snapshotting expected breakdown values per event time
    snaps = []

    def post(case_, w, m, tdir, pvts, verdict, info):
        if verdict != "accept":
            return None
        try:
            b = Pvt(tdir, fname)
        except (PrvError, OSError) as e:
            return result(False, "breakdown-unparsable", None, str(e), **info)
        nphy = sum(len(l.cpus) for l in w.looms)
        if b.prv.nrows != nphy:
            return result(False, "breakdown-rows", None, "breakdown has %d rows for %d physical CPUs" % (b.prv.nrows, nphy), **info)
        # lines must change the row's value
        cur = {}
        for (t, row, ty, v) in b.prv.lines:
            if ty != btype:
                return result(False, "breakdown-type", None, "unexpected type %d in breakdown trace" % ty, **info)
            if cur.get(row, None) == v:
                return result(False, "breakdown-redundant-line", None,
                              "line at t=%d rewrites row %d with its current value %d" % (t, row, v), **info)
            cur[row] = v
        for (t, exp) in snaps:
            off = m.offgrammar is not None and t >= m.offgrammar
            if off and m.offgrammar_kind != "pop-over-paused":
                info["probes"] = dict(info.get("probes", {}), **{"history left the runtime grammar (comparison stops there)": 1})
                break
            if off:
                info["probes"] = dict(info.get("probes", {}), **{"region closed over a paused body (off-grammar, still compared)": 1})
            vals = [b.at(r, btype, t) for r in range(1, nphy + 1)]
            if any(vals[i] > vals[i + 1] for i in range(nphy - 1)):
                return result(False, "breakdown-not-sorted", None, "rows at t=%d are %r (not non-decreasing)" % (t, vals), **info)
            labs = []
            for v in vals:
                if v == 0:
                    labs.append(None)
                else:
                    l = b.pcf.label(btype, v)
                    labs.append(l if l is not None else "<unlabeled %d>" % v)
            # multiset match with ambiguity
            remaining = list(labs)
            ambiguous = []
            missing = []
            for e in exp:
                if len(e) == 1:
                    (x,) = tuple(e)
                    if x in remaining:
                        remaining.remove(x)
                    else:
                        missing.append(x)
                else:
                    ambiguous.append(e)
            for e in ambiguous:
                hit = next((x for x in remaining if x in e), "<none>")
                if hit == "<none>":
                    missing.append(e)
                else:
                    remaining.remove(hit)
            ok = not missing
            if (not ok or remaining) and off:
                # the recorded finding O1: after a region was closed over a still-paused body and the body resumed, CPUs show
                # the task-body subsystem label where their task type is due -- and nothing else is wrong
                body = W.TASK_BODY_LABEL[model]
                types = set(lab for l in w.looms for p in l.procs for lab in p.types[model].values()) | \
                    {x for x in missing if isinstance(x, str) and x.startswith("(unlabeled task type")}
                stale = bool(remaining) and all(x == body for x in remaining) and len(missing) == len(remaining) and \
                    all(isinstance(x, str) and x in types for x in missing)
                if stale:
                    return result(False, "breakdown-stale-after-offgrammar-resume", "breakdown-stale-after-offgrammar-resume",
                                  "after a region was closed over a still-paused task body (a history the runtimes do not produce) and the body "
                                  "resumed, the breakdown at t=%d shows %r where the per-CPU values are %r: the task-body subsystem label is "
                                  "shown instead of the task type" % (t, labs, [sorted(map(str, e)) for e in exp]), **info)
                # any other mismatch is reported like everywhere else: the statement defines the value here too
                # (body subsystem on top, no task type -> the subsystem label)
            if not ok or remaining:
                return result(False, "breakdown-multiset", None,
                              "at t=%d breakdown rows show %r but per-CPU reference values are %r"
                              % (t, labs, [sorted(map(str, e)) for e in exp]), **info)
        info["probes"] = dict(info.get("probes", {}), **{"breakdown instants compared": len(snaps)})
        return None

    def on_record(mach):
        # several events at the same instant: what holds "at that instant" is what the last of them leaves
        if snaps and snaps[-1][0] == mach.now:
            snaps.pop()
        snaps.append((mach.now, expected_values(mach.w, mach, model)))

    r = mgen.run_machine_case(case, ctx, keys_filter=lambda k, t: False, post=post, on_record=on_record)
    r["nontrivial"] = case.get("nontrivial", True)
    return r
