"""C01 -- runtime stream fidelity (DESIGN §4 C01)."""
import os

from .. import rt, rtgen
from ..framework import result, ihash

ID = "C01"
LEVEL = "exploration"
RUNS = {"quick": 2000, "thorough": 30000}
RULE = ("seeded programs of 1-2 tracing threads over the real libovni: normal emits with payload 0,2..16 and random MCV/payload bytes, jumbo "
        "emits of size 0..capacity, ovni_flush, mark push/pop/set, attr calls; arbitrary 64-bit event clocks in half the runs; a jumbo filler "
        "brings the fill level to CAP - size - delta (delta in -40..+40) before the event under test so the buffer-full boundary falls at "
        "every position relative to it; both the real 2 MiB buffer and a 4 KiB variant (one constant in a generated header) are used; legal "
        "short writes (down to 1 byte) at a per-run subset of write sites; with/without OVNI_TMPDIR; stdio buffer 512..65536; "
        "distinct = hash of the plan; 15% tiny programs (0-2 events before the first flush); non-trivial = at least one automatic flush was triggered (buffer-full boundary crossed) or a tiny program")
REAL = ["src/rt/ovni.c, src/common.c, src/parson.c compiled from /repo's working tree (ASan+UBSan)"]
STUB = ["scheduler, clock, file layer, environment (rt/sched.c, rt/seams.c) -- tmpfs stores the bytes", "stream decoder sim/tracefmt.py"]
ASSUMPTIONS = ["runs in which the library aborts on an accepted call are reported under 'api-refused-in-domain-call'",
               "the driver only makes calls the API accepts (jumbo total size < capacity, payload sizes 0 or 2..16)"]


def gen_lifetimes(rng):
    """A process that lives long: 36-64 short-lived tracing threads one after the other, under a descriptor
    table of 30 entries.  Whatever the library keeps per finished thread (descriptors, in particular) runs out
    after tens of threads instead of the thousands a real limit of 1024 would take."""
    r = rng.derive("lifetimes")
    nth = r.randint(36, 64)
    knobs = rtgen.base_knobs(rng.derive("knobs"), allow_faulty_io=False)
    knobs["nofile"] = 30
    knobs["strategy"] = 1
    g = rtgen.Prog(r, nth, rt.CAP_SMALL, knobs)
    g.tids = [300 + 7 * i for i in range(nth)]
    p = g.plan
    p.op(0, "proc_init", 1, rtgen.LOOM, rtgen.PID)
    done_at = {}
    for t in range(nth):
        if t > 0:
            p.op(t, "wait", t - 1, done_at[t - 1])
        p.op(t, "thread_init", g.tids[t])
        g.fill[t].len = 0
        for _ in range(r.randint(0, 3)):
            if r.chance(80):
                g.emit(t, rtgen.rand_mcv(r), "now", r.choice([0, 4, 16]))
            else:
                g.jumbo(t, rtgen.rand_mcv(r), "now", r.choice([0, 5, 300]))
        p.op(t, "flush")
        p.op(t, "thread_free")
        done_at[t] = len(p.ops[t])
    p.op(0, "wait", nth - 1, done_at[nth - 1])
    p.op(0, "proc_fini")
    return {"variant": "small", "plan": p.to_case(), "tids": g.tids, "boundaries": 1, "lifetimes": nth}


def gen(rng, tier, idx):
    if idx % 40 == 17:
        return gen_lifetimes(rng)
    r = rng.derive("plan")
    variant = "small" if r.chance(60) else "real"
    cap = rt.CAP_SMALL if variant == "small" else rt.CAP_REAL
    nth = 2 if r.chance(20) else 1
    knobs = rtgen.base_knobs(rng.derive("knobs"))
    if rng.derive("stderr").chance(4):
        # the program runs with its standard error closed, and repeats ovni_thread_init() (a documented warning)
        knobs["close_stderr"] = 1
        knobs.pop("close_stdin", None)
    g = rtgen.Prog(r, nth, cap, knobs, stale_pct=8)
    g.start(conformant=False)
    if knobs.get("close_stderr"):
        for t in range(nth):
            g.plan.op(t, "thread_init", g.tids[t])
    arbitrary_clock = r.chance(50)

    def clk():
        return (r.u64() if r.chance(70) else r.choice([0, 1, 2 ** 63, 2 ** 64 - 1])) if arbitrary_clock else "now"
    if r.chance(15):
        # tiny programs: 0-2 events, flush, maybe one more event and another flush
        pool = [0] * 4 + [12] * 3 + list(range(2, 17))
        for t in range(nth):
            for _ in range(r.randint(0, 2)):
                g.emit(t, rtgen.rand_mcv(r), clk(), r.choice(pool))
            if r.chance(70):
                g.flush(t)
                if r.chance(50):
                    g.emit(t, rtgen.rand_mcv(r), clk(), r.choice(pool))
        g.finish(conformant=False)
        return {"variant": variant, "plan": g.plan.to_case(), "tids": g.tids, "boundaries": g.boundaries, "tiny": True}
    n = r.choice([3, 10, 40, 120])
    nbound = r.randint(0, 4)
    bound_at = set(r.sample(range(n), min(nbound, n)))
    for t in range(nth):
        # user-defined mark types so that mark calls are in-domain at emulation too (not needed for C01)
        for i in range(n):
            if i in bound_at:
                # aim the boundary at the next event
                kind = r.weighted([("emit", 50), ("jumbo", 30), ("mark", 10), ("flush", 10)])
                size = {"emit": 12 + r.choice([0] + list(range(2, 17))), "jumbo": 16 + r.choice([0, 1, 5, 100, 1000]),
                        "mark": 24, "flush": 0}[kind]
                delta = r.randint(-40, 40)
                g.fill_to(t, cap - size - delta, rtgen.rand_mcv(r), clk())
                if kind == "emit":
                    g.emit(t, rtgen.rand_mcv(r), clk(), size - 12)
                elif kind == "jumbo":
                    g.jumbo(t, rtgen.rand_mcv(r), clk(), size - 16)
                elif kind == "mark":
                    g.mark(t, r.choice(["push", "pop", "set"]), r.below(100), r.choice([1, -1, 2 ** 62, 7]))
                else:
                    g.flush(t)
                continue
            a = r.weighted([("emit", 55), ("jumbo", 15), ("flush", 6), ("mark", 10), ("attr", 8), ("bigjumbo", 3), ("clock", 3), ("reinit", 2)])
            if a == "reinit":
                # accepted and documented as ignored (a warning): must not touch what is buffered
                g.plan.op(t, "thread_init", g.tids[t])
                g.plan.op(t, "isready")
            elif a == "emit":
                g.emit(t, rtgen.rand_mcv(r), clk(), r.choice([0] + list(range(2, 17))))
            elif a == "jumbo":
                g.jumbo(t, rtgen.rand_mcv(r), clk(), r.choice([0, 1, 2, 3, 4, 15, 16, 17, 100, 1000]))
            elif a == "bigjumbo":
                g.jumbo(t, rtgen.rand_mcv(r), clk(), r.choice([cap - 17, cap - 18, cap - 17 - r.below(60), cap // 2, cap - 100]))
            elif a == "flush":
                g.flush(t)
            elif a == "mark":
                g.mark(t, r.choice(["push", "pop", "set"]), r.below(100), r.choice([1, 5, -3, 2 ** 40]))
            elif a == "attr":
                k = r.choice(["app.name", "x.y.z", "nosv.lib_version", "n"])
                w = r.choice(["str", "double", "boolean", "json", "flush"])
                if w == "str":
                    g.plan.op(t, "attr_set_str", k, r.choice(["v", "hello world", "%", ""]))
                elif w == "double":
                    g.plan.op(t, "attr_set_double", k, r.choice([0, 1.5, -3]))
                elif w == "boolean":
                    g.plan.op(t, "attr_set_boolean", k, r.below(2))
                elif w == "json":
                    g.plan.op(t, "attr_set_json", k, r.choice(['{"a":[1,2,3]}', '"s"', "3"]))
                else:
                    g.plan.op(t, "attr_flush")
            else:
                g.plan.op(t, "clock_now")
    g.finish(conformant=False)
    return {"variant": variant, "plan": g.plan.to_case(), "tids": g.tids, "boundaries": g.boundaries}


def run(case, ctx):
    plan = rt.Plan.from_case(case["plan"])
    d = ctx.workdir()
    try:
        out = rt.run_plan(ctx, plan, d, variant=case["variant"])
        h = out.hist
        nops = sum(len(t) for t in plan.ops)
        writes = [s for s in h.steps if s.call in ("write", "fwrite")]
        shorts = sum(1 for s in writes if 0 < s.ret < s.req)
        info = {"sim_ns": (h.allclocks[-1][2] - 10 ** 9) if h.allclocks else 0, "size": nops, "ihash": ihash(case["plan"]),
                "nontrivial": case["boundaries"] > 0 or bool(case.get("tiny")),
                "faults": {"short write": shorts, "zero clock advance": sum(1 for i in range(1, len(h.allclocks)) if h.allclocks[i][2] == h.allclocks[i - 1][2])},
                "probes": {"automatic flush (boundary crossed)": case["boundaries"], "buffer:" + case["variant"]: 1,
                           "relocation through OVNI_TMPDIR": 1 if plan.knobs.get("tmpdir") else 0, "two threads": 1 if len(plan.ops) > 1 else 0,
                           "tiny program (0-2 events before the first flush)": 1 if case.get("tiny") else 0,
                           "long-lived process: 36-64 thread lifetimes under a 30-entry descriptor table": 1 if case.get("lifetimes") else 0},
                "det": None,
                "sample": {"variant": case["variant"], "knobs": plan.knobs, "ops_head": [o for o in plan.ops[0][:10]], "n_ops": nops,
                           "fs_steps": len(h.steps), "end": h.end}}
        if out.status != 0 or h.end != "done":
            if h.abort is not None:
                st, th, op = h.abort
                opd = plan.ops[th][op] if 0 <= th < len(plan.ops) and 0 <= op < len(plan.ops[th]) else "?"
                return result(False, "api-refused-in-domain-call", None,
                              "library aborted in thread %d op %d %r (step %d)\n--- tool stderr (tail) ---\n%s" % (th, op, opd[:3], st, out.stderr[-600:]), **info)
            return result(False, "runtime-crashed", "runtime-crashed:%s" % out.status,
                          "rtsim ended with status %s end=%s\n--- tool stderr (tail) ---\n%s" % (out.status, h.end, out.stderr[-1500:]), **info)
        for t, tid in enumerate(case["tids"]):
            sd = rtgen.stream_dir(out.root, plan.knobs, tid)
            try:
                obs = open(os.path.join(sd, "stream.obs"), "rb").read()
            except OSError as e:
                return result(False, "stream-missing", None, "thread %d: %s" % (tid, e), **info)
            exp = rt.expected_user_events(plan.ops[t], h, t)
            bad = rtgen.check_stream_against_log(obs, exp)
            if bad:
                return result(False, bad[0], None, "thread %d (tid %d): %s" % (t, tid, bad[1]), **info)
        return result(True, **info)
    finally:
        ctx.cleanup(d)


def shrink_candidates(case):
    import copy
    ops = case["plan"]["ops"]
    for t in range(len(ops)):
        n = len(ops[t])
        # never remove the init prefix or the final free/fini
        lo = 0
        while lo < n and ops[t][lo][0] in ("version_check", "proc_init", "wait", "thread_init", "require", "add_cpu"):
            lo += 1
        hi = n
        while hi > lo and ops[t][hi - 1][0] in ("flush", "thread_free", "proc_fini", "wait"):
            hi -= 1
        size = (hi - lo) // 2
        while size >= 1:
            for a in range(lo, hi, size):
                c = copy.deepcopy(case)
                del c["plan"]["ops"][t][a:min(hi, a + size)]
                # fix 'wait' counts of other threads that refer to this thread's length
                for t2 in range(len(ops)):
                    for o in c["plan"]["ops"][t2]:
                        if o[0] == "wait" and int(o[1]) == t and int(o[2]) > lo:
                            o[2] = str(len(c["plan"]["ops"][t]))
                yield c
            size //= 2
    if case["plan"]["knobs"].get("shortw_seed"):
        c = copy.deepcopy(case)
        c["plan"]["knobs"].pop("shortw_seed")
        yield c
