"""C11 -- concurrent tracing threads are isolated; process init/fini exactly once (DESIGN §4 C11)."""
import json
import os
import re

from .. import rt, rtgen
from .. import tracefmt as tf
from ..framework import result, ihash

ID = "C11"
LEVEL = "exploration"
RUNS = {"quick": 1800, "thorough": 40000}
RULE = ("2-4 real threads of one process run init / require / add-cpu / set-rank / emit (payloads tagged with thread and sequence number) / "
        "jumbo / flush / attr / mark / free under the seeded scheduler, which parks and releases them at every libc call, every <stdatomic.h> "
        "operation and every API boundary; strategies per run (swarm): uniform random, PCT-style priorities with 1-3 change points, "
        "run-to-completion, switch-at-every-yield; three scenario kinds: 'iso' (one init, isolation oracles), 'race-init' (2-3 threads call "
        "ovni_proc_init with different arguments), 'race-fini' (2-3 threads call ovni_proc_fini, then one tries to init again); one third of the "
        "schedules is re-executed, with the same explicit decision list, in a ThreadSanitizer build; distinct = hash of the schedule decision "
        "list + plan; non-trivial = at least 5 context switches between threads")
REAL = ["src/rt/ovni.c, src/common.c, src/parson.c compiled from /repo's working tree: ASan+UBSan build and TSan build (scheduler hand-off is "
        "not instrumented, so TSan sees no happens-before edge from the serialisation)"]
STUB = ["scheduler, clock, file layer, environment (rt/sched.c, rt/seams.c)"]
ASSUMPTIONS = ["for a data-race-free library, interleaving at synchronisation and I/O points covers its behaviours; the TSan pass is what "
               "justifies the premise, for every executed schedule", "the library refuses by abort(), which ends the process and the run"]


def gen(rng, tier, idx):
    if idx % 60 == 31:
        # many thread lifetimes in one process under a small descriptor table (see c01.gen_lifetimes): a thread that
        # has finished must leave nothing behind that a later thread runs out of
        from . import c01
        c = c01.gen_lifetimes(rng)
        nthl = len(c["tids"])
        return {"kind": "iso", "variant": "small", "plan": c["plan"], "tids": c["tids"], "racers": [], "staggered": True, "tsan": False,
                "exp": {str(t): {"cpus": [], "rank": None, "attrs": {}, "marks": {}, "require": {}} for t in range(nthl)}}
    r = rng.derive("plan")
    kind = r.weighted([("iso", 55), ("race-init", 22), ("race-fini", 23)])
    nth = r.randint(2, 4)
    variant = "small" if r.chance(80) else "real"
    cap = rt.CAP_SMALL if variant == "small" else rt.CAP_REAL
    knobs = rtgen.base_knobs(rng.derive("knobs"), allow_faulty_io=False)
    knobs["clock_mode"] = r.choice([0, 1, 2, 3])
    knobs["strategy"] = r.weighted([(0, 40), (3, 30), (1, 15), (2, 15)])
    knobs["pct_depth"] = r.randint(1, 3)
    if r.chance(15):
        # close(2) of a stream interrupted by a signal: it reports EINTR although the descriptor is released, and another
        # thread may be handed the same number right away
        knobs["close_eintr_pct"] = r.choice([30, 100])
    p = rt.Plan(nth)
    p.knobs = knobs
    tids = [200 + 7 * t for t in range(nth)]
    exp = {t: {"cpus": [], "rank": None, "attrs": {}, "marks": {}, "require": {}} for t in range(nth)}
    racers = []
    if kind == "race-init":
        racers = r.sample(range(nth), r.randint(2, min(3, nth)))
        for t in racers:
            p.op(t, "proc_init", 1 + t, "node.%d" % (t if r.chance(50) else 7), 77 + (t if r.chance(50) else 0))
        for t in range(nth):
            if t not in racers:
                p.op(t, "wait", racers[0], 1)
    else:
        p.op(0, "proc_init", 1, rtgen.LOOM, rtgen.PID)
        for t in range(1, nth):
            p.op(t, "wait", 0, 1)
    # staggered lifetimes: some threads only start after another one has been freed
    late_after = {}
    if kind == "iso" and nth >= 3 and r.chance(40):
        early = r.choice([0, 1])
        for t in range(nth):
            if t != early and t != 0 and r.chance(80):
                late_after[t] = early
    order = sorted(range(nth), key=lambda t: (t in late_after, t))
    for t in order:
        if t in late_after:
            p.op(t, "wait", late_after[t], len(p.ops[late_after[t]]))
        p.op(t, "thread_init", tids[t])
        seq = 0
        for _ in range(r.choice([2, 8, 25])):
            a = r.weighted([("emit", 40), ("jumbo", 8), ("flush", 8), ("attr", 14), ("cpu", 8), ("rank", 3), ("mark", 8),
                            ("require", 5), ("attrflush", 6)])
            if a == "emit":
                seq += 1
                sz = r.choice([8, 12, 16])
                payload = (tf.u32(t, seq) + bytes([t] * 8))[:sz]
                p.op(t, "emit", "OB.", "now", payload.hex())
            elif a == "jumbo":
                seq += 1
                p.op(t, "jumbo", "OB.", "now", r.choice([8, 100, cap // 3]), r.u64() >> 1, tf.u32(t, seq).hex())
            elif a == "flush":
                p.op(t, "flush")
            elif a == "attr":
                k = "app.t%d.k%d" % (t, r.below(4))
                ty = r.weighted([("str", 55), ("double", 15), ("boolean", 15), ("json", 15)])
                if ty == "str":
                    v = "v%d-%d" % (t, r.below(1000))
                    p.op(t, "attr_set_str", k, v)
                elif ty == "double":
                    v = t * 1000 + r.below(1000) + 0.5
                    p.op(t, "attr_set_double", k, repr(v))
                elif ty == "boolean":
                    v = r.chance(50)
                    p.op(t, "attr_set_boolean", k, 1 if v else 0)
                else:
                    v = {"thread": t, "list": [t, r.below(100)], "s": "x%d" % t}
                    p.op(t, "attr_set_json", k, json.dumps(v, separators=(",", ":")))
                exp[t]["attrs"][k] = v
            elif a == "attrflush":
                p.op(t, "attr_flush")
            elif a == "cpu":
                c = (len(exp[t]["cpus"]), 10 * t + len(exp[t]["cpus"]))
                if exp[t]["cpus"] and r.chance(20):
                    # the library records what it is told: an exact repeat, or an index it already has with another
                    # physical id (whether the whole trace is consistent is the emulator's business)
                    old_ = r.choice(exp[t]["cpus"])
                    c = tuple(old_) if r.chance(40) else (old_[0], old_[1] + 100)
                exp[t]["cpus"].append(c)
                p.op(t, "add_cpu", c[0], c[1])
            elif a == "rank":
                exp[t]["rank"] = (t, nth)
                p.op(t, "set_rank", t, nth)
            elif a == "require":
                m = r.choice(["nosv", "nanos6", "mpi"]) 
                ver = "1.%d.0" % t
                p.op(t, "require", m, ver)
                exp[t]["require"][m] = ver
            else:
                ty = r.below(100)
                if ty not in exp[t]["marks"]:
                    st = r.chance(50)
                    exp[t]["marks"][ty] = {"title": "T%d of thread %d" % (ty, t), "stack": st}
                    p.op(t, "mark_type", ty, 1 if st else 0, "T%d of thread %d" % (ty, t))
                else:
                    p.op(t, "mark_push" if exp[t]["marks"][ty]["stack"] else "mark_set", ty, 1 + r.below(9))
        p.op(t, "flush")
        p.op(t, "thread_free")
    if kind == "race-fini":
        fin = r.sample(range(nth), r.randint(2, min(3, nth)))
        # everybody first waits for all others to be done with their streams
        for t in fin:
            for o in range(nth):
                if o != t:
                    p.op(t, "wait", o, len([x for x in p.ops[o]]))
        for t in fin:
            p.op(t, "proc_fini")
        if r.chance(50):
            p.op(fin[0], "proc_init", 9, "again", 99)
        racers = fin
    elif kind == "iso":
        for o in range(1, nth):
            p.op(0, "wait", o, len(p.ops[o]))
        p.op(0, "proc_fini")
    return {"kind": kind, "variant": variant, "plan": p.to_case(), "tids": tids, "racers": racers, "staggered": bool(late_after),
            "exp": {str(k): {"cpus": v["cpus"], "rank": v["rank"], "attrs": v["attrs"],
                             "marks": {str(a): b for a, b in v["marks"].items()}, "require": v["require"]} for k, v in exp.items()},
            "tsan": r.chance(34)}


LIBFRAME = re.compile(r"/src/(rt/ovni|common|parson|compat)\.c:\d+")


def report_in_library(rep):
    """A TSan report counts when the innermost non-runtime frame of at least
    one of the two conflicting accesses is inside the library's sources."""
    blocks = re.split(r"\n(?=  (?:Write|Read|Previous|Atomic|As if)[^\n]*:\n)", rep)
    for b in blocks:
        if not re.match(r"\s*(?:WARNING.*\n)?\s*(Write|Read|Previous|Atomic)", b):
            continue
        for fr in re.findall(r"#\d+ \S+ (\S+)", b):
            if "libsanitizer" in fr or "libtsan" in fr or fr.startswith("../"):
                continue
            if LIBFRAME.search(fr):
                return True
            break
    return False


def getpath(d, dotted):
    cur = d
    for part in dotted.split("."):
        if not isinstance(cur, dict) or part not in cur:
            return None
        cur = cur[part]
    return cur


def check_thread(case, plan, out, h, t, loom, pid):
    tid = case["tids"][t]
    sd = os.path.join(out.root, rtgen.tracedir_of(plan.knobs), "loom." + loom, "proc.%d" % pid, "thread.%d" % tid)
    try:
        obs = open(os.path.join(sd, "stream.obs"), "rb").read()
        meta = json.load(open(os.path.join(sd, "stream.json")))
    except (OSError, ValueError) as e:
        return ("stream-or-metadata-missing", "thread %d: %s" % (tid, e))
    lastflush = max(i for i, o in enumerate(plan.ops[t]) if o[0] == "flush")
    exp_ev = rt.expected_user_events(plan.ops[t], h, t, upto_op=lastflush)
    bad = rtgen.check_stream_against_log(obs, exp_ev)
    if bad:
        return ("stream-of-thread-corrupted:" + bad[0], "thread %d: %s" % (tid, bad[1]))
    e = case["exp"][str(t)]
    o = meta.get("ovni", {})
    problems = []
    if o.get("tid") != tid:
        problems.append("ovni.tid is %r" % o.get("tid"))
    if o.get("pid") != pid or o.get("loom") != loom:
        problems.append("pid/loom %r/%r" % (o.get("pid"), o.get("loom")))
    want_cpus = [{"index": i, "phyid": ph} for (i, ph) in e["cpus"]]
    if (o.get("loom_cpus") or []) != want_cpus:
        problems.append("loom_cpus %r, thread added %r" % (o.get("loom_cpus"), want_cpus))
    if e["rank"] is None:
        if "rank" in o:
            problems.append("rank %r present though this thread never set one" % o.get("rank"))
    elif (o.get("rank"), o.get("nranks")) != tuple(e["rank"]):
        problems.append("rank %r/%r" % (o.get("rank"), o.get("nranks")))
    if o.get("finished") != 1:
        problems.append("finished missing")
    req = dict(o.get("require", {}))
    req.pop("ovni", None)
    if req != e["require"]:
        problems.append("require %r, thread required %r" % (req, e["require"]))
    app = meta.get("app", {})
    got_attrs = {}
    for tk, tv in (app.items() if isinstance(app, dict) else []):
        if isinstance(tv, dict):
            for k, v in tv.items():
                got_attrs["app.%s.%s" % (tk, k)] = v
    if got_attrs != e["attrs"]:
        problems.append("attributes %r, thread set %r" % (got_attrs, e["attrs"]))
    marks = o.get("mark", {}) or {}
    wantm = {str(k): {"title": v["title"], "chan_type": "stack" if v["stack"] else "single"} for k, v in e["marks"].items()}
    gotm = {k: {"title": v.get("title"), "chan_type": v.get("chan_type")} for k, v in marks.items()}
    if gotm != wantm:
        problems.append("mark types %r, thread defined %r" % (gotm, wantm))
    if problems:
        return ("metadata-of-thread-polluted", "thread %d stream.json: %s" % (tid, "; ".join(problems)))
    return None


def run(case, ctx):
    plan = rt.Plan.from_case(case["plan"])
    kind = case["kind"]
    d = ctx.workdir()
    try:
        out = rt.run_plan(ctx, plan, d, variant=case["variant"])
        h = out.hist
        switches = sum(1 for i in range(1, len(h.sched)) if h.sched[i] != h.sched[i - 1])
        info = {"sim_ns": (h.allclocks[-1][2] - 10 ** 9) if h.allclocks else 0, "size": sum(len(t) for t in plan.ops),
                "ihash": ihash([case["plan"]["ops"], h.sched]), "nontrivial": switches >= 5,
                "faults": {"strategy:%s" % {0: "random", 1: "serial", 2: "round-robin", 3: "pct"}[plan.knobs["strategy"]]: 1,
                           "scenario:" + kind: 1, "staggered thread lifetimes": 1 if case.get("staggered") else 0},
                "probes": {"context switches": switches, "yield points": h.nyields},
                "states": ["%s/%s" % (kind, h.end)],
                "sample": {"kind": kind, "threads": len(plan.ops), "strategy": plan.knobs["strategy"], "schedule_head": h.sched[:60],
                           "yields": h.nyields, "end": h.end, "ops_t0_head": plan.ops[0][:6]}}
        san = out.status in (77, 78)
        if san or (isinstance(out.status, str)):
            return result(False, "runtime-memory-error", "runtime-memory-error:%s" % out.status,
                          "rtsim status %s\n--- tool stderr (tail) ---\n%s" % (out.status, out.stderr[-2000:]), **info)
        inits = [(t, i) for t, ops in enumerate(plan.ops) for i, o in enumerate(ops) if o[0] == "proc_init"]
        finis = [(t, i) for t, ops in enumerate(plan.ops) for i, o in enumerate(ops) if o[0] == "proc_fini"]
        init_ok = [x for x in inits if x in h.op_end]
        fini_ok = [x for x in finis if x in h.op_end]
        first_init = [x for x in inits if x[1] == 0 or plan.ops[x[0]][0][0] == "proc_init" and x[1] == 0]
        # exactly-once
        gone = None
        for (w, t, i) in h.order:
            if w == "E" and (t, i) in finis:
                gone = True
        if kind == "race-init":
            if len(init_ok) > 1:
                return result(False, "proc-init-took-effect-twice", None,
                              "%d racing ovni_proc_init calls returned normally: %r (schedule %s...)" % (len(init_ok), init_ok, h.sched[:80]), **info)
            if h.end == "done":
                return result(False, "racing-init-loser-not-refused", None, "all racers' ovni_proc_init returned and the run completed", **info)
        if kind == "race-fini":
            if len(fini_ok) > 1:
                return result(False, "proc-fini-took-effect-twice", None,
                              "%d racing ovni_proc_fini calls returned normally: %r (schedule %s...)" % (len(fini_ok), fini_ok, h.sched[:80]), **info)
            late = [x for x in init_ok if x[1] > 0]
            if late:
                return result(False, "init-after-fini-accepted", None, "ovni_proc_init returned normally after ovni_proc_fini", **info)
            if h.end == "done":
                return result(False, "racing-fini-loser-not-refused", None, "every ovni_proc_fini (and re-init) returned and the run completed", **info)
        if kind == "iso" and (h.end != "done" or out.status != 0):
            where = ""
            if h.abort:
                st, th, op = h.abort
                where = " in thread %d op %d %r" % (th, op, plan.ops[th][op][:3])
            return result(False, "valid-concurrent-program-aborted", None,
                          "run ended with %s%s\n--- tool stderr (tail) ---\n%s" % (h.end, where, out.stderr[-600:]), **info)
        # isolation: every thread that completed thread_free (all kinds)
        if init_ok:
            t0, _ = init_ok[0]
            a = plan.ops[t0][0]
            loom, pid = a[2], int(a[3])
            for t in range(len(plan.ops)):
                free_idx = [i for i, o in enumerate(plan.ops[t]) if o[0] == "thread_free"][0]
                if (t, free_idx) not in h.op_end:
                    continue
                bad = check_thread(case, plan, out, h, t, loom, pid)
                if bad:
                    return result(False, bad[0].split(":")[0], bad[0], bad[1] + "\n(schedule %s...)" % h.sched[:80], **info)
                info["probes"]["threads checked for isolation"] = info["probes"].get("threads checked for isolation", 0) + 1
        if case.get("tsan"):
            plan.knobs["sched"] = h.sched or None
            out2 = rt.run_plan(ctx, plan, d, variant=case["variant"], san="tsan", timeout=240)
            info["probes"]["schedules re-executed under ThreadSanitizer"] = 1
            reports = [x for x in out2.stderr.split("==================") if "ThreadSanitizer: data race" in x]
            # only reports with a frame inside the library's translation units count (the harness is not the subject)
            lib = [x for x in reports if report_in_library(x)]
            info["probes"]["TSan reports that only involve the harness (ignored)"] = len(reports) - len(lib)
            if lib:
                locs = sorted(set(re.findall(r"(/src/(?:rt/ovni|common|parson|compat)\.c:\d+)", lib[0])))[:6]
                m = re.search(r".*", lib[0], re.S)
                return result(False, "data-race", "data-race:" + ",".join(locs[:2]),
                              "ThreadSanitizer reports a data race inside the library under schedule %s...\n%s" % (h.sched[:60], (m.group(0) if m else out2.stderr)[:1800]),
                              det="data race at " + ",".join(locs), **info)
            if out2.hist.end != h.end:
                return result(False, "tsan-replay-diverged", None, "TSan build ended with %s, ASan build with %s\n%s" % (out2.hist.end, h.end, out2.stderr[-800:]), infra=True, **info)
        return result(True, **info)
    finally:
        ctx.cleanup(d)
