"""C16 -- ovnisort yields a stable sorted permutation and touches only what it must (DESIGN §4 C16)."""
import os
import struct

from .. import tracefmt as tf
from ..framework import result, emu_verdict, ihash
from ..world import BASE_CLOCK

ID = "C16"
LEVEL = "exploration"
RUNS = {"quick": 10000, "thorough": 40000}
RULE = ("seeded kernel-tracer simulation: each thread emits user events on the simulated clock while a kernel actor records context switches "
        "(and, in raw mode, arbitrary events incl. jumbo ones) with true timestamps into a ring buffer that is drained later inside OU[ .. OU], "
        "with seeded delay (insertion depth), optional shuffling inside a batch, several regions per stream, empty regions, regions reaching "
        "back into a previous region or to the first event, equal clocks across user and kernel events, and look-back sizes -n from 2 up to "
        "'just enough', 'one short' and the default; distinct = hash of the streams; non-trivial = at least one non-empty region whose events "
        "must move")
REAL = ["ovnisort, ovnisort -c, ovniemu (src/emu/ovnisort.c, stream.c, kernel model) built from /repo's working tree"]
STUB = ["libovni and the kernel tracer replaced by the simulated machine + independent trace writer"]
ASSUMPTIONS = ["must-succeed domain: for every region, the number of events before its OU] whose clock is >= the smallest clock in the region "
               "is <= n - 2 (sound under-approximation of 'proper position within the look-back window')",
               "whether an unsuccessful end is exit(1) or abort() is C19's business, not C16's"]
SHRINK_LIST = None


def gen(rng, tier, idx):
    r = rng.derive("workload")
    mode = r.weighted([("emu", 55), ("raw", 45)])
    nthreads = r.randint(1, 3)
    streams = []
    uid = 0
    unterminated = False
    for ti in range(nthreads):
        evs = []          # file order: [mcv, clock, payload_hex, jumbo_hex]
        t = r.below(50)
        kbuf = []
        in_cpu = True
        if mode == "emu":
            evs.append(["OHx", t, struct.pack("<iiQ", -1, 0, 0).hex(), None])
        nsteps = r.choice([3, 10, 40, 120, 300])
        shuffle_p = r.choice([0, 0, 30, 100])
        tie_p = r.choice([0, 10, 40])
        # clocks seconds apart inside one sort window (differences that do not fit in 32 bits)
        bigstep = r.choice([1000, 1000, 10 ** 9, 3 * 10 ** 9, 2 ** 32 + 5])
        for _ in range(nsteps):
            a = r.weighted([("user", 50), ("cs", 14 if mode == "emu" else 6), ("kev", 18 if mode == "raw" else 0),
                            ("drain", 14), ("emptydrain", 3), ("jumbo", 4 if mode == "raw" else 0)])
            dt = 0 if r.chance(tie_p) else 1 + r.below(r.choice([3, 50, 1000, 1000, bigstep]))
            if a == "user":
                t += dt
                uid += 1
                mcv = "OB."
                if mode == "raw" and r.chance(12):
                    # in-order events of other models whose category/value look like the region markers' (only "OU[" and
                    # "OU]" delimit a region)
                    mcv = r.choice(["VU[", "6U[", "DU[", "VU]", "6U]", "KU[", "OU.", "OV["])
                evs.append([mcv, t, tf.u64(uid).hex(), None])
            elif a == "jumbo":
                t += dt
                uid += 1
                evs.append(["OB.", t, "", (tf.u64(uid) + r.bytes(r.below(40))).hex()])
            elif a == "cs":
                # out at t (tie with the previous user event allowed), back in strictly before any later user event
                t += dt
                kbuf.append(["KCO", t, "", None])
                t += 1 + r.below(100)
                kbuf.append(["KCI", t, "", None])
                t += 1
            elif a == "kev":
                # kernel records something with a true time in the (recent) past or now
                uid += 1
                back = r.choice([0, 0, 1, 5, 100, 10 ** 6, 5 * 10 ** 9])
                kt = max(0, t - r.below(back + 1))
                if kbuf:
                    kt = max(kt, 0)
                if r.chance(15):
                    kbuf.append(["OB.", kt, "", (tf.u64(uid) + r.bytes(r.below(24))).hex()])
                else:
                    kbuf.append([r.choice(["OB.", "KCO", "KCI", "VTx", "zzz", "VU]", "6U]", "DU]", "VU[", "KU]", "OU."]), kt, tf.u64(uid).hex(), None])
            elif a in ("drain", "emptydrain"):
                t += dt
                batch = [] if a == "emptydrain" else kbuf
                if a == "drain":
                    kbuf = []
                if r.chance(shuffle_p):
                    batch = list(batch)
                    r.shuffle(batch)
                evs.append(["OU[", t, "", None])
                evs.extend(batch)
                evs.append(["OU]", t + (0 if r.chance(50) else 1), "", None])
                t = evs[-1][1]
        if kbuf:
            t += 1
            evs.append(["OU[", t, "", None])
            evs.extend(kbuf)
            if mode == "raw" and r.chance(6):
                unterminated = True     # the tracer died before closing its last region: this cannot be sorted
            else:
                evs.append(["OU]", t, "", None])
        if mode == "emu":
            t += 1
            evs.append(["OHe", t, "", None])
        streams.append({"tid": 100 + ti, "events": evs})
    if mode == "raw" and nthreads >= 2 and r.chance(8):
        # a thread that was set up but never got to flush anything: its stream holds the header and nothing else
        streams[r.below(nthreads)]["events"] = []
    # look-back size
    dmax = 0
    for s in streams:
        for d in depths(s["events"]):
            dmax = max(dmax, d)
    nk = r.weighted([("default", 35), ("enough", 25), ("short", 15), ("small", 15), ("plenty", 10)])
    n = {"default": None, "enough": dmax + 2, "short": max(2, dmax + 1), "small": 2 + r.below(4), "plenty": dmax + 2 + r.below(50)}[nk]
    return {"mode": mode, "streams": streams, "n": n, "nkind": nk, "unterminated": unterminated}


def regions(evs):
    """-> list of (start index of OU[, index of OU]) for regions with content (the tool's state machine)."""
    out = []
    st = "S"
    start = None
    for i, e in enumerate(evs):
        if st == "S" and e[0] == "OU[":
            st = "U"
            start = i
        elif st == "U":
            if e[0] == "OU]":
                st = "S"
            else:
                st = "X"
        elif st == "X" and e[0] == "OU]":
            out.append((start, i))
            st = "S"
    return out


def depths(evs):
    ds = []
    for (a, b) in regions(evs):
        c0 = min(e[1] for e in evs[a + 1:b])
        ds.append(sum(1 for e in evs[:b] if e[1] >= c0))
    return ds


def to_ev(e):
    return tf.Ev(e[0], BASE_CLOCK + e[1], bytes.fromhex(e[2]), None if e[3] is None else bytes.fromhex(e[3]))


def run(case, ctx):
    mode = case["mode"]
    streams = []
    must_succeed = True
    moves = False
    n = case["n"]
    for s in case["streams"]:
        st = tf.Stream("node.0", 7, s["tid"],
                       tf.base_meta("node.0", 7, s["tid"], cpus=[(0, 0)], require={"kernel": "1.0.0"}))
        st.events = [to_ev(e) for e in s["events"]]
        streams.append(st)
        for d in depths(s["events"]):
            if n is not None and d > n - 2:
                must_succeed = False
        clocks = [e[1] for e in s["events"]]
        if clocks != sorted(clocks):
            moves = True
    if case.get("unterminated"):
        must_succeed = False        # a region that is never closed cannot be sorted: failing (and saying so) is the right answer
    nev = sum(len(s["events"]) for s in case["streams"])
    info = {"sim_ns": max([e[1] for s in case["streams"] for e in s["events"]] + [0]), "size": nev,
            "ihash": ihash(case["streams"]), "nontrivial": moves,
            "faults": {"delayed kernel delivery (region must move)": 1 if moves else 0, "look-back:" + case["nkind"]: 1,
                       "look-back too short by construction": 0 if must_succeed else 1},
            "probes": {"regions": sum(len(regions(s["events"])) for s in case["streams"])},
            "sample": {"mode": mode, "n": n, "streams": [{"tid": s["tid"], "events_head": [(e[0], e[1]) for e in s["events"][:14]],
                                                          "n_events": len(s["events"])} for s in case["streams"]]}}
    d = ctx.workdir()
    try:
        tdir = os.path.join(d, "ovni")
        tf.write_trace(tdir, streams)
        before = [s.obs_bytes() for s in streams]
        args = (["-n", str(n)] if n is not None else []) + [tdir]
        # 30% of the runs: the file system hands ovnisort short pwrite(2) transfers (seeded; aux/shortio.c)
        hsalt = int(info["ihash"][:8], 16)
        shortio = hsalt if hsalt % 10 < 3 else None
        if shortio is not None:
            info["faults"]["short pwrite transfers while sorting"] = 1
        status, out, err = ctx.run_tool("ovnisort", args, shortio=shortio)
        etxt = err.decode(errors="replace")
        tail = "\n--- tool stderr (tail) ---\n" + etxt[-1000:]
        if status != 0:
            if must_succeed:
                return result(False, "sortable-stream-not-sorted", None,
                              "every region is within the look-back window (n=%r) but ovnisort ended with %s%s" % (n, status, tail), **info)
            if not etxt.strip():
                return result(False, "silent-failure", None, "ovnisort ended with %s without saying why%s" % (status, tail), **info)
            info["probes"]["ovnisort refused (look-back too short or region never closed)"] = 1
            return result(True, **info)
        info["probes"]["ovnisort succeeded"] = 1
        after = [open(os.path.join(tdir, s.relpath, "stream.obs"), "rb").read() for s in streams]
        for si, s in enumerate(streams):
            b, a = before[si], after[si]
            if len(a) != len(b):
                return result(False, "size-changed", None, "stream %d: %d bytes before, %d after" % (si, len(b), len(a)), **info)
            try:
                dec = tf.decode(a)
            except tf.DecodeError as e:
                return result(False, "output-not-decodable", None, "stream %d after sorting: %s" % (si, e), **info)
            orig = s.events
            exp = sorted(range(len(orig)), key=lambda i: orig[i].clock)   # python sort is stable
            expb = tf.HEADER + b"".join(orig[i].encode() for i in exp)
            if a != expb:
                gotk = [e.key() for _, e in dec]
                if sorted(map(repr, gotk)) != sorted(repr(e.key()) for e in orig):
                    return result(False, "not-a-permutation", None, "stream %d: the multiset of events changed" % si, **info)
                clocks = [e.clock for _, e in dec]
                if clocks != sorted(clocks):
                    return result(False, "not-sorted", None, "stream %d: clocks not non-decreasing after a successful ovnisort" % si, **info)
                return result(False, "equal-clock-order-changed", None,
                              "stream %d: sorted permutation, but equal-clock events changed their relative order" % si, **info)
            # untouched prefix (sound under-approximation, independent of how the tool walks regions)
            rg = regions(case["streams"][si]["events"])
            if rg:
                cmin = min(e[1] for (x, y) in rg for e in case["streams"][si]["events"][x + 1:y])
                off = 8
                for e in orig:
                    if e.clock - BASE_CLOCK > cmin:
                        break
                    off += len(e.encode())
                if a[:off] != b[:off]:
                    return result(False, "prefix-touched", None, "stream %d: bytes before offset %d changed" % (si, off), **info)
        status2, _, err2 = ctx.run_tool("ovnisort", args)
        after2 = [open(os.path.join(tdir, s.relpath, "stream.obs"), "rb").read() for s in streams]
        if status2 != 0 or after2 != after:
            return result(False, "not-idempotent", None, "second ovnisort: status %s, bytes %s" % (status2, "changed" if after2 != after else "same"), **info)
        status3, _, err3 = ctx.run_tool("ovnisort", ["-c", tdir], san=True, heapbuf=True)
        if status3 != 0:
            return result(False, "check-mode-fails-after-sort", None, "ovnisort -c ended with %s after a successful sort\n--- tool stderr (tail) ---\n%s"
                          % (status3, err3.decode(errors="replace")[-600:]), **info)
        if mode == "emu":
            status4, _, err4 = ctx.run_tool("ovniemu", [tdir])
            v = emu_verdict(status4, err4)
            if v != "accept":
                return result(False, "emulator-rejects-sorted-trace", None, "ovniemu says %s\n--- tool stderr (tail) ---\n%s"
                              % (v, err4.decode(errors="replace")[-900:]), **info)
            info["probes"]["emulator accepted the sorted trace"] = 1
        return result(True, **info)
    finally:
        ctx.cleanup(d)


def shrink_candidates(case):
    import copy
    # drop streams, then chunks of events per stream
    if len(case["streams"]) > 1:
        for i in range(len(case["streams"])):
            c = copy.deepcopy(case)
            del c["streams"][i]
            yield c
    for si, s in enumerate(case["streams"]):
        n = len(s["events"])
        size = n // 2
        while size >= 1:
            for a in range(0, n, size):
                c = copy.deepcopy(case)
                ev = c["streams"][si]["events"]
                del ev[a:a + size]
                # keep the structure sane: regions must stay paired
                depth = 0
                ok = True
                for e in ev:
                    if e[0] == "OU[":
                        depth += 1
                    elif e[0] == "OU]":
                        depth -= 1
                    if depth not in (0, 1):
                        ok = False
                if ok and depth == 0 and ev:
                    yield c
            size //= 2
