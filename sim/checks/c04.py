"""C04 -- thread life-cycle (DESIGN §4 C04, App. A.1)."""
from .. import mgen
from ..prng import Rng

ID = "C04"
LEVEL = "exploration"
RUNS = {"quick": 1500, "thorough": 60000}
RULE = ("seeded histories over the OH* alphabet (plus affinity and filler events) on 1-5 threads over 1-4 CPUs "
        "in 1-2 looms; 1/3 of the histories carry one injected illegal move or end with a thread not dead; "
        "distinct = hash of the action list; non-trivial = the history contains a pause/cool/warm cycle or an injected fault")
REAL = ["ovniemu (src/emu/**) built from /repo's working tree"]
STUB = ["libovni replaced by the independent trace writer sim/tracefmt.py", "traced machine = sim/world.py reference model"]
ASSUMPTIONS = ["OHx on a dead thread is never generated (left open by the property)",
               "global timestamps are unique, so cross-stream tie order cannot influence acceptance"]


def keys(kind, ty):
    return kind == "thread" and ty in (2, 4, 6)


def gen(rng, tier, idx):
    desc = mgen.gen_world_desc(rng.derive("world"), nlooms=(1, 2), ncpus=(1, 4), nprocs=(1, 2), nthreads=(1, 3))
    g = mgen.Gen(rng.derive("workload"), desc, knobs={"w_state": 45, "w_aff": 15, "w_region": 0, "w_flush": 3,
                                                       "w_filler": 8, "w_idle": 0})
    r = rng.derive("faults")
    n = r.choice([5, 20, 60, 150, 400])
    mode = r.weighted([("legal", 60), ("fault", 28), ("notdead", 12)])
    fault_at = r.below(n) if mode == "fault" else None
    for i in range(n):
        if i == fault_at:
            g.inject_fault_kinds = None
            # only thread/CPU faults belong here
            for kind in r.sample(["badtrans", "badtrans", "oversub", "badcpu", "oar_bad"], 5):
                if getattr(g, "fault_" + kind)():
                    g.fault(kind)
                    break
        g.step()
    skip = None
    if mode == "notdead":
        alive = [t for t in g.th if t.state not in ("D",)]
        if alive:
            skip = r.choice(alive)
            g.fault("not-dead-at-end")
    g.finish(skip=skip)
    nontrivial = any(a[1] in ("OHp", "OHc", "OHw") for a in g.actions) or bool(g.faults)
    return {"world": desc, "actions": g.actions, "faults": g.faults, "probes": g.probes, "nontrivial": nontrivial}


def run(case, ctx):
    r = mgen.run_machine_case(case, ctx, keys_filter=keys)
    r["nontrivial"] = case.get("nontrivial", True)
    return r


SHRINK_LIST = "actions"
shrink_candidates = mgen.shrink_actions
