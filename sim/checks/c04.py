"""C04 -- thread life-cycle (DESIGN §4 C04, App. A.1)."""
from .. import mgen
from ..prng import Rng

ID = "C04"
LEVEL = "exploration"
NSWEEP1 = sum(6 ** k for k in range(1, 7))       # all OH* sequences up to length 6 on one thread
NSWEEP2 = sum(12 ** k for k in range(1, 5))      # up to length 4 on two threads sharing one CPU
NRANDOM = {"quick": 8000, "thorough": 60000}
RUNS = {"quick": NRANDOM["quick"], "thorough": NRANDOM["thorough"] + NSWEEP1 + NSWEEP2}
LETTERS = "xpcwre"
RULE = ("seeded histories over the OH* alphabet (plus affinity and filler events) on 1-5 threads over 1-4 CPUs "
        "in 1-2 looms (one run in 250 is a marathon of 1100-4500 legal state cycles on one or two threads); 1/3 of the histories carry one injected illegal move or end with a thread not dead; "
        "thorough adds the bounded-exhaustive sweep: all %d sequences over the six OH* letters up to length 6 on one thread and all %d up to "
        "length 4 on two threads sharing a CPU (quick samples 5%% of its runs from it); distinct = hash of the action list; non-trivial = the history contains a pause/cool/warm cycle or an injected fault") % (NSWEEP1, NSWEEP2)
REAL = ["ovniemu (src/emu/**) built from /repo's working tree"]
STUB = ["libovni replaced by the independent trace writer sim/tracefmt.py", "traced machine = sim/world.py reference model"]
ASSUMPTIONS = ["OHx on a dead thread is never generated (left open by the property)",
               "global timestamps are unique, so cross-stream tie order cannot influence acceptance"]


def keys(kind, ty):
    return kind == "thread" and ty in (2, 4, 6)


def sweep_case(n):
    """n-th member of the bounded-exhaustive sweep."""
    if n < NSWEEP1:
        nth, base, maxlen = 1, 6, 6
    else:
        n -= NSWEEP1
        nth, base, maxlen = 2, 12, 4
    L = 1
    while n >= base ** L:
        n -= base ** L
        L += 1
    seq = []
    for _ in range(L):
        seq.append(n % base)
        n //= base
    desc = {"looms": [{"name": "node.0", "phyids": [0], "skew": 0,
                       "procs": [{"pid": 10, "appid": 1, "rank": None, "nranks": None, "threads": [100 + i for i in range(nth)]}]}],
            "models": [], "marks": {}}
    acts = []
    for sym in seq:
        ti, v = (sym // 6, LETTERS[sym % 6]) if nth == 2 else (0, LETTERS[sym])
        pl = mgen.ohx_payload(0, 100 + ti).hex() if v == "x" else ""
        acts.append([ti, "OH" + v, pl, None, 1])
    return {"world": desc, "actions": acts, "faults": {"bounded-exhaustive sweep member": 1}, "probes": {}, "nontrivial": True, "sweep": True}


def marathon_case(rng):
    """One or two threads going through thousands of legal pause/cool/warm/resume cycles: whatever the emulator
    accumulates per state change (callbacks, stack entries, buffered output) must not run out on a long trace."""
    r = rng.derive("marathon")
    nth = r.choice([1, 1, 2])
    models = r.choice([[], [], ["nosv"], ["nanos6", "openmp"]])
    desc = {"looms": [{"name": "node.0", "phyids": [0, 1], "skew": 0,
                       "procs": [{"pid": 10, "appid": 1, "rank": None, "nranks": None, "threads": [100 + i for i in range(nth)]}]}],
            "models": models, "marks": {}}
    acts = [[ti, "OHx", mgen.ohx_payload(ti, 100 + ti).hex(), None, 1] for ti in range(nth)]
    for _ in range(r.choice([1100, 2300, 4500])):
        ti = r.below(nth)
        for v in r.choice(["pr", "pr", "cpr", "pwr", "cpwr"]):
            acts.append([ti, "OH" + v, "", None, 1 + r.below(3)])
    for ti in range(nth):
        acts.append([ti, "OHe", "", None, 1])
    return {"world": desc, "actions": acts, "faults": {}, "probes": {"marathon: thousands of state cycles on one thread": 1}, "nontrivial": True}


def gen(rng, tier, idx):
    if tier == "thorough" and idx >= NRANDOM["thorough"]:
        return sweep_case(idx - NRANDOM["thorough"])
    if idx % 250 == 123:
        return marathon_case(rng)
    if tier == "quick" and idx % 20 == 19:
        return sweep_case(rng.derive("sweep").below(NSWEEP1 + NSWEEP2))
    desc = mgen.gen_world_desc(rng.derive("world"), nlooms=(1, 2), ncpus=(1, 4), nprocs=(1, 2), nthreads=(1, 3))
    g = mgen.Gen(rng.derive("workload"), desc, knobs={"w_state": 45, "w_aff": 15, "w_region": 0, "w_flush": 3,
                                                       "w_filler": 8, "w_idle": 0})
    r = rng.derive("faults")
    n = r.choice([5, 20, 60, 150, 400])
    mode = r.weighted([("legal", 60), ("fault", 28), ("notdead", 12)])
    fault_at = r.below(n) if mode == "fault" else None
    for i in range(n):
        if i == fault_at:
            g.inject_fault_kinds = None
            # only thread/CPU faults belong here
            for kind in r.sample(["badtrans", "badtrans", "oversub", "badcpu", "oar_bad"], 5):
                if getattr(g, "fault_" + kind)():
                    g.fault(kind)
                    break
        g.step()
    skip = None
    if mode == "notdead":
        alive = [t for t in g.th if t.state not in ("D",)]
        if alive:
            skip = r.choice(alive)
            g.fault("not-dead-at-end")
    g.finish(skip=skip)
    nontrivial = any(a[1] in ("OHp", "OHc", "OHw") for a in g.actions) or bool(g.faults)
    return {"world": desc, "actions": g.actions, "faults": g.faults, "probes": g.probes, "nontrivial": nontrivial}


def run(case, ctx):
    r = mgen.run_machine_case(case, ctx, keys_filter=keys)
    r["nontrivial"] = case.get("nontrivial", True)
    return r


SHRINK_LIST = "actions"
shrink_candidates = mgen.shrink_actions
