"""C19 -- tools are total: any trace bytes give a clean exit (DESIGN §4 C19)."""
import copy
import json
import os
import re
import shutil
import struct

from .. import storefault as sf
from .. import tracefmt as tf
from ..framework import result, ihash
from ..prng import Rng

ID = "C19"
LEVEL = "exploration"
RUNS = {"quick": 3000, "thorough": 20000}
RUN_ALARM = 600
RULE = ("valid traces from the simulated machine are corrupted without restraint by the storage layer (1-4 faults per trace): size nibble and "
        "jumbo flag edits, jumbo size set to boundary values (0, 1, 3, remaining-1, remaining, remaining+1, 2^31+-1, 2^32-16, 2^32-1), payloads "
        "shorter or longer than the handler or the event printer expects, missing NUL in string payloads, truncation anywhere, zero-filled "
        "pages, duplicated and swapped blocks, bit flips, JSON values of the wrong type, huge numbers, deep nesting, missing objects, loom_cpus "
        "entries without keys, names with '/'; ovniemu, ovnidump (-x and decoded), ovnitop, ovnisort -c and ovnisort run on every corrupted "
        "trace, built with ASan+UBSan, the stream held in an exact-size heap buffer (OVNI_VERIF hook; ovnisort in sorting mode keeps mmap), "
        "under a 30 s wall-clock limit; evaluations = tool executions; distinct = hash of the corrupted bytes; non-trivial = the corrupted "
        "trace differs from the valid one")
REAL = ["ovniemu, ovnidump, ovnitop, ovnisort built from /repo's working tree with -fsanitize=address,undefined -DOVNI_VERIF"]
STUB = ["libovni replaced by the independent trace writer + storage fault layer"]
ASSUMPTIONS = ["the 30 s limit is more than 1000x the normal run time of these traces (5-12 ms); it is the only non-simulated clock in the design",
               "a die() reachable from trace bytes ends in abort() = SIGABRT and counts as a signal under the statement"]
TOOL_TIMEOUT = 30.0


def mutate_obs(r, obs):
    """Apply one structure-aware fault to a stream. Returns (kind, new bytes)."""
    try:
        spans = sf.event_spans(obs)
    except tf.DecodeError:
        spans = []
    ops = ["flip", "truncate", "nibble", "jumboflag", "jumbosize", "resize-payload", "zero-page", "dup-block", "swap-block",
           "no-nul", "long-label", "ou-region", "insert-garbage", "random-file", "empty"]
    k = r.choice(ops)
    b = bytearray(obs)
    if k == "flip" and b:
        for _ in range(r.randint(1, 4)):
            i = r.below(len(b))
            b[i] ^= 1 << r.below(8)
    elif k == "truncate" and b:
        b = b[:r.below(len(b))]
    elif k == "nibble" and spans:
        off, n, e = r.choice(spans)
        b[off] = (b[off] & 0xF0) | r.below(16)
    elif k == "jumboflag" and spans:
        off, n, e = r.choice(spans)
        b[off] ^= 0x10
    elif k == "jumbosize" and spans:
        js = [s for s in spans if s[2].jumbo is not None]
        off, n, e = r.choice(js) if js and r.chance(70) else r.choice(spans)
        remaining = len(b) - off - 16
        val = r.choice([0, 1, 3, max(0, remaining - 1), max(0, remaining), remaining + 1, 2 ** 31 - 1, 2 ** 31, 2 ** 31 + 1,
                        2 ** 32 - 16, 2 ** 32 - 1, 2 ** 32 - 28, 2 ** 32 - 12])
        if e.jumbo is None:
            # turn a normal event into a jumbo one with a chosen size
            b[off] = 0x13
            if off + 16 > len(b):
                b.extend(b"\0" * (off + 16 - len(b)))
        b[off + 12:off + 16] = struct.pack("<I", val & 0xFFFFFFFF)
    elif k == "resize-payload" and spans:
        off, n, e = r.choice(spans)
        if e.jumbo is None:
            sz = r.choice([0, 2, 3, 4, 7, 8, 12, 16])
            pl = (e.payload + r.bytes(16))[:sz]
            b[off:off + n] = tf.enc(e.mcv, e.clock, pl)
        else:
            data = e.jumbo[:r.below(len(e.jumbo) + 1)]
            b[off:off + n] = tf.enc(e.mcv, e.clock, b"", data)
    elif k == "zero-page" and b:
        i = r.below(len(b))
        ln = r.choice([4, 12, 64, 4096])
        b[i:i + ln] = b"\0" * min(ln, len(b) - i)
    elif k == "dup-block" and len(b) > 16:
        i = r.below(len(b))
        ln = r.choice([12, 16, 28, 100])
        b[i:i] = b[i:i + ln]
    elif k == "swap-block" and len(spans) > 2:
        i, j = sorted(r.sample(range(len(spans)), 2))
        (o1, n1, _), (o2, n2, _) = spans[i], spans[j]
        b = b[:o1] + b[o2:o2 + n2] + b[o1 + n1:o2] + b[o1:o1 + n1] + b[o2 + n2:]
    elif k == "no-nul" and spans:
        # a task type event as the very last event, label without terminator
        mcv = r.choice(["VYc", "6Yc"])
        lab = b"L" * r.choice([0, 1, 7, 60])
        b.extend(tf.enc(mcv, spans[-1][2].clock, b"", struct.pack("<I", 9) + lab))
    elif k == "long-label" and spans:
        # a properly terminated but very long task-type label
        mcv = r.choice(["VYc", "6Yc"])
        lab = b"L" * r.choice([500, 900, 1000, 1023, 1024, 1100, 5000, 70000])
        b.extend(tf.enc(mcv, spans[-1][2].clock, b"", struct.pack("<I", 9) + lab + b"\0"))
    elif k == "ou-region" and spans:
        # an unsorted region whose content belongs to the very beginning of the stream (or far back)
        off, n, e = r.choice(spans[:3] if r.chance(60) else spans)
        early = r.choice([0, 1, max(0, e.clock - 1), max(0, e.clock - 10 ** 6),
                          # clocks with the top bit set: smallest when read as signed, largest as unsigned
                          2 ** 63, 2 ** 63 + 5, 2 ** 64 - 1, e.clock | 2 ** 63])
        closing = r.weighted([("closed", 70), ("never", 15), ("inverted", 15)])
        region = tf.enc("OU[", e.clock) + tf.enc("OB.", early, r.bytes(8)) + (tf.enc("OB.", (early + 1) % 2 ** 64) if r.chance(50) else b"")
        if closing == "closed":
            region += tf.enc("OU]", e.clock)
        elif closing == "inverted":
            region = tf.enc("OU]", e.clock) + region
        b[off:off] = region
    elif k == "insert-garbage":
        i = r.below(len(b) + 1)
        b[i:i] = r.bytes(r.choice([1, 3, 12, 40]))
    elif k == "random-file":
        b = bytearray(r.bytes(r.choice([1, 7, 8, 9, 20, 200])))
        if r.chance(50):
            b[:8] = tf.HEADER[:min(8, len(b))]
    elif k == "empty":
        b = bytearray()
    return k, bytes(b)


def mutate_json(r, meta):
    m = copy.deepcopy(meta)
    ops = ["wrong-type", "huge", "deep", "deep-array", "drop-ovni", "cpus-nokeys", "slash", "torn", "not-object", "mark-garbage", "neg", "float",
           "other-part"]
    k = r.choice(ops)
    o = m.get("ovni", {})
    if k == "wrong-type":
        key = r.choice(["tid", "pid", "loom", "app_id", "finished", "require", "loom_cpus", "part", "rank", "mark"])
        o[key] = r.choice([None, True, "x", 1.5, [], {}, [1, 2], {"a": {"b": 1}}, -1, 0])
    elif k == "huge":
        key = r.choice(["tid", "pid", "app_id", "rank", "nranks", "finished"])
        o[key] = r.choice([2 ** 31, 2 ** 32, 2 ** 63, 10 ** 30, -2 ** 31 - 1, 1e308])
        if key == "rank":
            o.setdefault("nranks", 2 ** 31)
    elif k == "deep":
        depth = r.choice([50, 500, 3000])
        o["deep"] = "@@DEEP@@"
    elif k == "drop-ovni":
        m.pop("ovni", None)
    elif k == "cpus-nokeys":
        o["loom_cpus"] = r.choice([[{}], [{"index": 0}], [{"phyid": 0}], [1, 2], [{"index": "a", "phyid": "b"}], [{"index": -1, "phyid": -1}],
                                   [{"index": 2 ** 31, "phyid": 1}], [{"index": 0, "phyid": 0}, {"index": 0, "phyid": 5}], [[]]])
    elif k == "slash":
        o["loom"] = r.choice(["a/b", "/", "", ".", "x" * 5000])
    elif k == "mark-garbage":
        o["mark"] = r.choice([{"x": {}}, {"1": {}}, {"1": {"title": 3}}, {"1": {"title": "t", "chan_type": "weird"}},
                              {"1": {"title": "t", "chan_type": "single", "labels": {"a": "b"}}},
                              {"1": {"title": "t", "chan_type": "single", "labels": {"1": 3}}}, {"200": {"title": "t", "chan_type": "stack"}}, []])
    elif k == "other-part":
        # a stream that belongs to no thread (its events, if any, have no owner)
        o["part"] = r.choice(["monitor", "cpu", "process", "x", "", "Thread"])
    elif k == "neg":
        o[r.choice(["tid", "pid", "app_id", "rank"])] = -5
    elif k == "float":
        o[r.choice(["tid", "pid", "app_id"])] = 1.5
    if k == "deep-array":
        adepth = r.choice([100, 2047, 2048, 2049, 3000, 100000, 1000000])
        o["pad"] = "@@ARR@@"
    txt = json.dumps(m)
    if k == "deep-array":
        txt = txt.replace('"@@ARR@@"', "[" * adepth + "]" * adepth)
    if k == "deep":
        txt = txt.replace('"@@DEEP@@"', '{"a":' * depth + "{}" + "}" * depth)
    if k == "torn":
        txt = txt[:r.below(len(txt))]
    elif k == "not-object":
        txt = r.choice(["[]", "3", "null", "\"s\"", "", "{", "{\"version\":3,}", "\xff\xfe"])
    return k, txt.encode("utf-8", "replace")


def gen(rng, tier, idx):
    models = [sf.ALL_MODELS[idx % 7]] + rng.derive("m").sample([m for m in sf.ALL_MODELS if m != sf.ALL_MODELS[idx % 7]], rng.derive("n").randint(0, 2))
    case = sf.base_trace(rng, size="small", models=models)
    case["mseed"] = rng.derive("mut").u64()
    case["nfaults"] = rng.derive("nf").weighted([(1, 50), (2, 25), (3, 15), (4, 10)])
    return case


def classify(tool, status, err):
    """None if clean, else (class, signature detail)."""
    txt = err.decode(errors="replace")
    if status in (0, 1) and "Sanitizer" not in txt and "runtime error:" not in txt:
        return None
    loc = ""
    m = re.search(r"#\d+ 0x[0-9a-f]+ in (\w+) (/\S+?/src/\S+?):(\d+)", txt)
    if m:
        loc = "%s@%s" % (m.group(1), os.path.basename(m.group(2)))
    if status == "timeout":
        return ("hang", "timeout")
    if "AddressSanitizer" in txt:
        kind = re.search(r"AddressSanitizer: ([\w-]+)", txt)
        return ("memory-error", "asan:%s:%s" % (kind.group(1) if kind else "?", loc))
    if "runtime error:" in txt:
        m2 = re.search(r"(\S+?):(\d+):\d+: runtime error: ([^\n]{0,40})", txt)
        return ("undefined-behaviour", "ubsan:%s:%s" % (os.path.basename(m2.group(1)) if m2 else "?", (m2.group(3).split(" ")[0] if m2 else "")))
    if isinstance(status, str) and status.startswith("signal"):
        m3 = re.findall(r"(?:FATAL|ERROR): (\w+):", txt)
        return ("signal", "%s:%s" % (status, m3[-1] if m3 else ""))
    return ("bad-exit-status", "exit:%s" % status)


def run(case, ctx):
    w, m, streams = sf.materialise(case)
    r = Rng(case["mseed"])
    desc = []
    obs = {i: s.obs_bytes() for i, s in enumerate(streams)}
    js = {i: s.json_bytes() for i, s in enumerate(streams)}
    for _ in range(case["nfaults"]):
        si = r.below(len(streams))
        if r.chance(72):
            k, nb = mutate_obs(r, obs[si])
            obs[si] = nb
            desc.append("stream %d obs:%s" % (si, k))
        else:
            k, nb = mutate_json(r, streams[si].meta)
            js[si] = nb
            desc.append("stream %d json:%s" % (si, k))
    changed = any(obs[i] != s.obs_bytes() or js[i] != s.json_bytes() for i, s in enumerate(streams))
    info = {"sim_ns": m.now, "size": len(case["actions"]), "ihash": ihash([sorted((k, v.hex()) for k, v in obs.items()), sorted((k, v.hex()) for k, v in js.items())]),
            "nontrivial": changed, "faults": {}, "probes": {}, "evals": 0,
            "sample": {"corruptions": desc, "stream_bytes": [len(v) for v in obs.values()], "models": w.models}}
    for dsc in desc:
        k = dsc.split(" ", 2)[2]
        info["faults"][k] = info["faults"].get(k, 0) + 1
    d = ctx.workdir()
    try:
        tdir = os.path.join(d, "ovni")
        for i, s in enumerate(streams):
            s.raw, s.rawjson = obs[i], js[i]
        tf.write_trace(tdir, streams)
        runs = [("ovniemu", ["-l", tdir], True), ("ovnidump", ["-x", tdir], True), ("ovnidump", [tdir], True), ("ovnitop", [tdir], True),
                ("ovnisort", ["-c", tdir], True), ("ovnisort", ["-n", str(r.choice([2, 5, 100, 1000000])), tdir], False)]
        for tool, args, heap in runs:
            status, out, err = ctx.run_tool(tool, args, san=True, heapbuf=heap, timeout=TOOL_TIMEOUT)
            info["evals"] += 1
            c = classify(tool, status, err)
            key = "%s exit %s" % (tool, status if status in (0, 1) else "other")
            info["probes"][key] = info["probes"].get(key, 0) + 1
            if c is not None:
                return result(False, "tool-not-total:" + c[0], "%s:%s:%s" % (tool, c[0], c[1]),
                              "%s %s on a trace corrupted by [%s]: %s (%s)\n--- tool stderr (tail) ---\n%s"
                              % (tool, " ".join(a for a in args if a != tdir), "; ".join(desc), c[0], c[1], err.decode(errors="replace")[-1800:]),
                              det="%s %s %s" % (tool, c[0], c[1]), **info)
        return result(True, **info)
    finally:
        for s in streams:
            s.raw = s.rawjson = None
        ctx.cleanup(d)


def shrink_candidates(case):
    if case["nfaults"] > 1:
        c = dict(case)
        c["nfaults"] = case["nfaults"] - 1
        yield c
SHRINK_LIST = "actions"
