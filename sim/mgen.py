"""Seeded generator of machine-mode histories (threads, CPUs, affinity, model
regions, tasks, marks) driven by the reference model, plus the shared runner
that materialises a case, runs ovniemu and compares (C04-C08, C13, C17, C20)."""
import os
import struct

from . import tracefmt as tf
from . import world as W
from .framework import result, emu_verdict, ihash, list_chunks
from .prv import Pvt, PrvError
from .prng import Rng

CAT = W.CATALOGUE
BOUNDARY_LABELS = [x["label"] for x in __import__("json").load(open(os.path.join(os.path.dirname(os.path.abspath(__file__)), "..", "data", "boundary_labels.json")))["labels"]]


# ----------------------------------------------------------------- world build
def gen_world_desc(rng, nlooms=(1, 2), ncpus=(1, 4), nprocs=(1, 2), nthreads=(1, 3), models=(), ranks=None,
                   marks=None, skews=False):
    looms = []
    nl = rng.randint(*nlooms)
    # swarm: a few worlds are much bigger than usual (many threads per process, many CPUs, many looms)
    crowd = rng.chance(4)
    if rng.chance(1):
        # more than 64 threads in one trace
        crowd = True
        nprocs = (max(nprocs[0], 2), max(nprocs[1], 4))
        nthreads = (16, 32)
    if crowd:
        nthreads = (nthreads[0], max(nthreads[1], rng.choice([6, 12, 24])))
        ncpus = (ncpus[0], max(ncpus[1], rng.choice([8, 16, 40])))
        if nlooms[1] > 1:
            nl = rng.randint(nl, 6)
    use_rank = rng.chance(30) if ranks is None else ranks
    rank = 0
    pid = 100 + rng.below(50)
    tid = 1000 + rng.below(500)
    # identifiers with different numbers of digits (lexicographic order of the directories != numeric order)
    wild = rng.chance(40)
    used_ids = set()

    huge = wild and rng.chance(35)

    def wild_id():
        while True:
            x = rng.choice([rng.randint(1, 9), rng.randint(10, 99), rng.randint(100, 999), rng.randint(1000, 99999)])
            if huge and rng.chance(50):
                x = rng.choice([2 ** 31 - 1, 2 ** 31 - 2, 2 ** 30, 65535, 65536, 2 ** 24 + 1, 4194304, 32768, 32767]) - rng.below(3)
            if x not in used_ids:
                used_ids.add(x)
                return x
    names = ["node%d.%d" % (rng.below(4), i) for i in range(nl)]
    if rng.chance(30):
        # names whose order is sensitive to how they are compared: '-' sorts before '.', case matters, prefixes
        pool = ["mn.1", "mn-ib.1", "mn1.Ab", "mn1.aB", "MN.1", "mn.10", "mn.2", "m.n", "mn", "mn-", "mn.1.x", "Mn.1", "n0de.0", "node.00"]
        names = rng.sample(pool, nl)
    if rng.chance(8):
        # the host is what precedes the first dot; the rest of a loom name may contain dots too
        names = [n + rng.choice([".1", ".x.y", ""]) if "." in n else n for n in names]
    allprocs = []
    for li in range(nl):
        nc = rng.randint(*ncpus)
        phy = sorted(rng.sample(range(0, max(16, 2 * nc)), nc))
        if rng.chance(10):
            # sparse, large physical ids
            phy = sorted(rng.sample([0, 1, 63, 64, 255, 256, 1023, 4095, 65535, 2 ** 20, 2 ** 31 - 1] + list(range(2, 60)), nc))
        if rng.chance(50):
            rng.shuffle(phy)
        procs = []
        for _ in range(rng.randint(*nprocs)):
            pid += 1 + rng.below(5)
            ths = []
            for _ in range(rng.randint(*nthreads)):
                tid += 1 + rng.below(7)
                ths.append(wild_id() if wild else tid)
            p = {"pid": wild_id() if wild else pid, "appid": 1 + rng.below(3), "rank": None, "nranks": None, "threads": ths}
            procs.append(p)
            allprocs.append(p)
        looms.append({"name": names[li], "phyids": phy, "procs": procs, "skew": 0})
    if use_rank:
        order = list(range(len(allprocs)))
        rng.shuffle(order)
        for r, i in enumerate(order):
            allprocs[i]["rank"] = r
            allprocs[i]["nranks"] = len(allprocs)
        if nl > 1 and rng.chance(30):
            # rank information only in some looms: the documented order falls back to loom names
            for l in rng.sample(looms, rng.randint(1, nl - 1)):
                for p in l["procs"]:
                    p["rank"] = p["nranks"] = None
    if nl > 1 and rng.chance(25):
        # TIDs and PIDs are only unique per node: reuse the identifiers of the first loom in the others
        base = looms[0]
        for l in looms[1:]:
            for pi, p in enumerate(l["procs"]):
                if pi < len(base["procs"]) and rng.chance(70):
                    bp = base["procs"][pi]
                    p["pid"] = bp["pid"]
                    for ti in range(min(len(p["threads"]), len(bp["threads"]))):
                        p["threads"][ti] = bp["threads"][ti]
                    # keep TIDs unique inside the loom
                    seen = set()
                    for pp in l["procs"]:
                        for ti, t in enumerate(pp["threads"]):
                            while t in seen:
                                t += 100000
                            pp["threads"][ti] = t
                            seen.add(t)
    if skews and nl > 1:
        # one clock per host (looms whose names share the part before the first dot share the host)
        hosts = sorted({n.split(".")[0] for n in names})
        hs = {h: rng.choice([0, rng.randint(-3 * 10 ** 12, 3 * 10 ** 12), rng.randint(-500, 500)]) for h in hosts}
        for l in looms:
            l["skew"] = hs[l["name"].split(".")[0]]
    d = {"looms": looms, "models": list(models), "marks": marks or {}}
    if rng.chance(6):
        # the machine's clock origin: times in the output are relative to the first event, whatever the clocks' magnitude
        d["base_clock"] = rng.choice([4 * 10 ** 12, 2 ** 53 + 12345, 2 ** 62, 2 ** 63 - 10 ** 15])
    if (models and rng.chance(12)) or (not models and rng.chance(6)):
        # each model is required by only some of the threads (possibly not by the last one, possibly not by the one using it)
        d["require_split"] = rng.u64()
    if rng.chance(5):
        # event-less streams that belong to no thread (ovni.part != "thread": tolerated with a warning)
        d["foreign"] = rng.u64()
    return d


def build_world(desc):
    w = W.World()
    w.models = list(desc["models"])
    w.require_split = desc.get("require_split")
    w.base_clock = desc.get("base_clock", W.BASE_CLOCK)
    for k, v in desc.get("marks", {}).items():
        w.mark_types[int(k)] = {"title": v["title"], "stack": v["stack"],
                                "labels": {int(a): b for a, b in v.get("labels", {}).items()}}
    for ld in desc["looms"]:
        l = w.add_loom(ld["name"], len(ld["phyids"]), ld["phyids"], ld.get("skew", 0))
        for pd in ld["procs"]:
            p = w.add_proc(l, pd["pid"], pd["appid"], pd["rank"], pd["nranks"])
            for t in pd["threads"]:
                w.add_thread(p, t)
    w.assign_rows()
    return w


# -------------------------------------------------------------------- generator
POP_OF = {}     # (model, chan, label) -> pop mcv
PUSHES = {}     # model -> list of (mcv, chan, label)
SETS = {}       # model -> list of (mcv, chan, label)
IGNS = {}
for _m, _c in CAT.items():
    PUSHES[_m], SETS[_m], IGNS[_m] = [], [], []
    for _e in _c["entries"]:
        if _e["action"] == "POP":
            POP_OF[(_m, _e["chan"], _e["label"])] = _e["mcv"]
        elif _e["action"] == "PUSH":
            PUSHES[_m].append((_e["mcv"], _e["chan"], _e["label"]))
        elif _e["action"] == "SET":
            SETS[_m].append((_e["mcv"], _e["chan"], _e["label"]))
        elif _e["action"] == "IGN":
            IGNS[_m].append(_e["mcv"])


def ohx_payload(cpu_index, tid=0, tag=0):
    return struct.pack("<iiQ", cpu_index, tid, tag)


class Gen:
    """Drives a Machine, recording the action list."""

    def __init__(self, rng, desc, lint=False, knobs=None):
        self.rng = rng
        self.desc = desc
        self.w = build_world(desc)
        self.m = W.Machine(self.w, lint=lint)
        self.actions = []
        self.th = self.w.threads
        k = {"w_state": 20, "w_aff": 10, "w_region": 30, "w_task": 0, "w_mark": 0, "w_flush": 2,
             "w_filler": 5, "w_kernel": 0, "w_idle": 4, "maxdepth": 6, "tight": 40, "p_vcpu": 15}
        k.update(knobs or {})
        if "big_ids" not in k:
            k["big_ids"] = rng.chance(12)
        if "many_tasks" not in k:
            k["many_tasks"] = rng.chance(6)
        self.k = k
        self.faults = {}
        self.probes = {}
        self.taskctr = {}
        self.typectr = {}

    # -- low level
    def emit(self, th, mcv, payload=b"", jumbo=None, dt=None):
        if dt is None:
            dt = 1 if self.rng.chance(self.k["tight"]) else 1 + self.rng.below(1000)
            x = self.rng.below(100)
            if x < 4 and self.actions and self.actions[-1][0] == self.th.index(th):
                dt = 0          # same instant as the previous event of the same thread (ties across threads stay out: see ASSUMPTIONS)
            elif mcv == "OHx" and th.state == "U" and x < 10 and all(any(t.loom is l and t.state != "U" for t in self.th) for l in self.w.looms):
                # (every loom has a thread that started early: the emulator still refuses LOOMS that start an hour apart)
                # a thread that starts hours after the first one of its loom (a long-running program spawning a worker)
                dt = 2 * 3600 * 10 ** 9 + self.rng.below(3600 * 10 ** 9)
                self.probe("thread started more than an hour after its loom's first")
            elif x < 6:
                # gaps that do not fit in 32 bits (their sum stays far below the hour at which the emulator
                # takes two streams for unsynchronised)
                dt = self.rng.choice([10 ** 6, 2 ** 31 + 5, 2 ** 32 + 7])
        self.actions.append([self.th.index(th), mcv, payload.hex(), None if jumbo is None else jumbo.hex(), dt])
        self.m.emit(th, mcv, payload, jumbo, dt)

    def probe(self, name, n=1):
        self.probes[name] = self.probes.get(name, 0) + n

    def fault(self, name):
        self.faults[name] = self.faults.get(name, 0) + 1

    # -- helpers on reference state
    def free_for_run(self, cpu, th):
        """True if th may be running on cpu without oversubscribing."""
        if cpu.virtual:
            return True
        return not any(t.state == "R" and t is not th for t in cpu.threads)

    def pick_cpu(self, th, free=True):
        l = th.loom
        cands = [c for c in l.cpus if self.free_for_run(c, th)] if free else list(l.cpus)
        if self.rng.chance(self.k["p_vcpu"]) or not cands:
            return l.vcpu
        return self.rng.choice(cands)

    def open_regions(self, th):
        n = 0
        for (m, ch, ty, mode, st) in self.m.quantities:
            if st:
                n += len(th.chan[(m, ch)])
        return n

    def model_ok(self, th, model):
        pre = CAT[model]["precondition"]
        if th.out_of_cpu and model in ("nosv", "ovni"):
            return False
        if pre == "active":
            return th.active
        if pre == "running":
            return th.running
        return True

    # -- legal actions
    def act_state(self, th):
        r = self.rng
        s = th.state
        if th.out_of_cpu:
            return False
        if s == "U":
            cpu = self.pick_cpu(th)
            self.emit(th, "OHx", ohx_payload(cpu.index, th.tid, r.below(1 << 30)))
            return True
        if s == "R":
            v = r.weighted([("c", 3), ("p", 5)])
            self.emit(th, "OH" + v)
            return True
        if s == "C":
            self.emit(th, "OHp")
            return True
        if s == "P":
            if self.free_for_run(th.cpu, th):
                self.emit(th, "OH" + r.weighted([("w", 3), ("r", 5)]))
            else:
                self.probe("paused thread blocked by a running thread on its cpu")
                if r.chance(50):
                    self.emit(th, "OHw")
                else:
                    return self.act_remote(th, target=th)
            return True
        if s == "W":
            if self.free_for_run(th.cpu, th):
                self.emit(th, "OHr")
                return True
            return self.act_remote(th, target=th)
        return False

    def act_affinity(self, th):
        r = self.rng
        if th.out_of_cpu or th.state in ("U", "D"):
            return False
        if th.active and r.chance(50):
            cpu = self.pick_cpu(th) if th.running else (r.choice(th.loom.cpus + [th.loom.vcpu]))
            if cpu is th.cpu:
                self.probe("OAs to the same cpu")
            self.emit(th, "OAs", tf.i32(cpu.index))
            return True
        return self.act_remote(th)

    def act_remote(self, th, target=None):
        r = self.rng
        if th.out_of_cpu:
            return False
        if target is None:
            cands = [t for p in th.loom.procs for t in p.threads if t.state in ("R", "C", "P", "W")]
            if not cands:
                return False
            target = r.choice(cands)
        if target.running:
            cpu = self.pick_cpu(target)
        else:
            cpu = r.choice(target.loom.cpus + [target.loom.vcpu])
        if cpu is target.cpu and not r.chance(15):
            others = [c for c in target.loom.cpus + [target.loom.vcpu] if c is not target.cpu
                      and (not target.running or self.free_for_run(c, target))]
            if not others:
                return False
            cpu = r.choice(others)
        if cpu is target.cpu:
            self.probe("remote affinity event naming the CPU the target is already on")
        if target.state in ("P", "W", "C"):
            self.probe("remote migration of a %s thread" % {"P": "paused", "W": "warming", "C": "cooling"}[target.state])
        if target.proc is not th.proc:
            self.probe("remote migration across processes")
        self.emit(th, "OAr", tf.i32(cpu.index, target.tid))
        return True

    def act_region(self, th):
        r = self.rng
        models = [m for m in self.w.models if self.model_ok(th, m) and m != "kernel"]
        if not models:
            return False
        m = r.choice(models)
        chans = sorted({c for (_, c, _) in PUSHES[m]})
        if not chans:
            return False
        ch = r.choice(chans)
        st = th.chan[(m, ch)]
        depth = len(st)
        # tasks keep their own discipline: do not pop a task body label here
        top = st[-1] if st else None
        can_pop = top is not None and top != W.TASK_BODY_LABEL.get(m)
        if (can_pop and self.k.get("pause_needs_region") and not self.k.get("offgrammar_pop") and len(st) >= 2 and st[-2] == W.TASK_BODY_LABEL.get(m)
                and th.bstack.get(m) and th.bstack[m][-1].state == "paused"):
            # the runtimes resume a body before leaving the region it paused in
            can_pop = False
        if can_pop and (depth >= self.k["maxdepth"] or r.chance(45)):
            self.emit(th, POP_OF[(m, ch, top)])
            return True
        cands = [p for p in PUSHES[m] if p[1] == ch and p[2] != top]
        mcv, _, label = r.choice(cands)
        self.emit(th, mcv)
        return True

    def act_idle(self, th):
        r = self.rng
        models = [m for m in self.w.models if SETS[m] and self.model_ok(th, m)]
        if not models:
            return False
        m = r.choice(models)
        cur = th.chan[(m, "CH_IDLE")]
        cands = [s for s in SETS[m] if s[2] != cur]
        self.emit(th, r.choice(cands)[0])
        return True

    def act_filler(self, th):
        r = self.rng
        if th.out_of_cpu:
            return False
        k = r.below(4)
        if k == 0:
            self.emit(th, "OB.")
        elif k == 1:
            self.emit(th, "OU[")
            self.emit(th, "OU]")
        elif k == 2:
            ms = [m for m in self.w.models if IGNS[m] and self.model_ok(th, m)]
            if not ms:
                return False
            self.emit(th, r.choice(IGNS[r.choice(ms)]))
        else:
            self.emit(th, "OB.", r.bytes(r.choice([2, 4, 8, 16])))
        return True

    def act_flush(self, th):
        if th.out_of_cpu or th.chan[("ovni", "CH_FLUSH")] is not None:
            return False
        self.emit(th, "OF[")
        self.emit(th, "OF]")
        return True

    def act_kernel(self, th):
        if "kernel" not in self.w.models or th.state in ("U", "D"):
            return False
        if th.out_of_cpu:
            self.emit(th, "KCI")
        else:
            self.emit(th, "KCO")
            self.probe("kernel context switch out")
        return True

    def act_mark(self, th):
        r = self.rng
        if not self.w.mark_types or th.out_of_cpu:
            return False
        ty = r.choice(sorted(self.w.mark_types))
        mt = self.w.mark_types[ty]
        if mt["stack"]:
            st = th.marks[ty]
            if st and (len(st) >= self.k["maxdepth"] or r.chance(45)):
                self.emit(th, "OM]", tf.i64(st[-1]) + tf.i32(ty))
            else:
                self.emit(th, "OM[", tf.i64(self.mark_value(mt)) + tf.i32(ty))
        else:
            self.emit(th, "OM=", tf.i64(self.mark_value(mt)) + tf.i32(ty))
        if not th.active:
            self.probe("mark changed while thread not active")
        return True

    def mark_value(self, mt):
        r = self.rng
        if mt["labels"] and r.chance(60):
            return r.choice(sorted(mt["labels"]))
        if r.chance(8):
            return r.choice([-1, -2 ** 31, 2 ** 31, 2 ** 32, 2 ** 40 + 3, 2 ** 62, -2 ** 62])
        return 1 + r.below(1000)

    # -- tasks
    def task_models(self, th):
        return [m for m in ("nosv", "nanos6") if m in self.w.models and self.model_ok(th, m)]

    def act_task(self, th):
        r = self.rng
        ms = self.task_models(th)
        if not ms:
            return False
        m = r.choice(ms)
        ch = CAT[m]["char"]
        p = th.proc
        types, tasks = p.types[m], p.tasks[m]
        stack = th.bstack[m]
        top = stack[-1] if stack else None
        ss = th.chan[(m, "CH_SUBSYSTEM")]
        body_label = W.TASK_BODY_LABEL[m]
        opts = []
        maxtypes, maxtasks = (40, 300) if self.k.get("many_tasks") else (3, 6)
        if len(types) < maxtypes:
            opts.append(("type", 3 if not types else 1))
        if types and len(tasks) < maxtasks:
            opts.append(("create", 4 if len(tasks) < 2 else (3 if self.k.get("many_tasks") else 1)))
        if top is not None and top.state == "running" and ss and ss[-1] == body_label:
            opts.append(("end", 4))
            if "pause" in top.task.flags and not self.k.get("pause_needs_region"):
                opts.append(("pause", 4))
        if (self.k.get("pause_needs_region") and top is not None and top.state == "running" and ss
                and ss[-1] != body_label and "pause" in top.task.flags):
            opts.append(("pause", 6))
        if top is not None and top.state == "paused":
            opts.append(("resume", 5))
        runnable = self.runnable_tasks(th, m)
        can_nest = top is None or top.state == "paused" or "relax" in top.task.flags
        if runnable and can_nest and len(stack) < 4:
            opts.append(("exec", 6))
        if not opts:
            return False
        a = r.weighted(opts)
        if a == "type":
            key = (id(p), m)
            n = self.typectr.get(key, 0) + 1
            self.typectr[key] = n
            if self.k.get("big_ids") and r.chance(40):
                n = r.choice([2 ** 32 - 1, 2 ** 31, 2 ** 31 - 1, 65536 + n, 2 ** 24 + n])
                while n in types:
                    n -= 1
            label = r.choice(["", "kernel%d" % n, "solve %d" % n, "t%d" % r.below(3), "x" * r.choice([1, 100, 400]) + str(n)])
            if self.k.get("big_ids") and r.chance(30):
                label = r.choice(BOUNDARY_LABELS)
            existing = set(types.values())
            shown = label if label else "(unlabeled task type %d)" % n
            if shown in existing:
                label = "uniq%d_%d" % (p.pid, n)
            self.emit(th, ch + "Yc", jumbo=tf.u32(n) + label.encode() + b"\0")
        elif a == "create":
            key = (id(p), m)
            n = self.taskctr.get(key, 0) + 1
            self.taskctr[key] = n
            if self.k.get("big_ids") and r.chance(40):
                n = r.choice([2 ** 32 - 1, 2 ** 31, 2 ** 31 - 1, 2 ** 16 + n, 2 ** 24 + n])
                while n in tasks:
                    n -= 1
            ty = r.choice(sorted(types))
            v = "c"
            if m == "nosv" and r.chance(35):
                v = "C"
            self.emit(th, ch + "T" + v, tf.u32(n, ty))
        elif a == "exec":
            task, bid = r.choice(runnable)
            if top is not None and top.state == "running":
                self.probe("nested over running body (relaxed)")
            if top is not None and top.state == "paused":
                self.probe("nested over paused body")
            if bid in task.bodies and task.bodies[bid].state == "dead":
                self.probe("task resurrected")
            self.emit_task(th, m, "x", task, bid)
        elif a == "end":
            self.emit_task(th, m, "e", top.task, top.id)
        elif a == "pause":
            self.emit_task(th, m, "p", top.task, top.id)
        elif a == "resume":
            self.emit_task(th, m, "r", top.task, top.id)
        return True

    def runnable_tasks(self, th, m):
        out = []
        for tid_, task in sorted(th.proc.tasks[m].items()):
            if "parallel" in task.flags:
                # a fresh body id, or a created one
                nb = len(task.bodies) + 1
                if nb <= 3:
                    if self.k.get("big_ids"):
                        nb = [2 ** 32 - 1, 2 ** 31, 2 ** 31 + 7][nb - 1]
                    out.append((task, nb))
            else:
                b = task.bodies.get(1)
                if b is None:
                    out.append((task, 1))
                elif b.state == "dead" and "resurrect" in task.flags:
                    out.append((task, 1))
        return out

    def emit_task(self, th, m, v, task, bid):
        ch = CAT[m]["char"]
        if m == "nosv":
            wire = bid if "parallel" in task.flags else 0
            self.emit(th, ch + "T" + v, tf.u32(task.id, wire))
        else:
            self.emit(th, ch + "T" + v, tf.u32(task.id))

    # -- one step
    def step(self):
        r = self.rng
        alive = [t for t in self.th if t.state != "D"]
        if not alive:
            return False
        th = r.choice(alive)
        if th.state == "U":
            if r.chance(6):
                # quantities tracked "always" do not wait for the thread to start: a flush (and, with the kernel
                # model, a context switch) before the first OHx shows in the thread's row like any other
                if "kernel" in self.w.models and r.chance(50):
                    self.emit(th, "KCO")
                    self.emit(th, "KCI")
                    self.probe("always-tracked value before the thread's first OHx")
                    return True
                if self.act_flush(th):
                    self.probe("always-tracked value before the thread's first OHx")
                    return True
            return self.act_state(th)
        k = self.k
        for _ in range(6):
            a = r.weighted([("state", k["w_state"]), ("aff", k["w_aff"]), ("region", k["w_region"]),
                            ("task", k["w_task"]), ("mark", k["w_mark"]), ("flush", k["w_flush"]),
                            ("filler", k["w_filler"]), ("kernel", k["w_kernel"]), ("idle", k["w_idle"])])
            if getattr(self, "act_" + {"state": "state", "aff": "affinity", "region": "region", "task": "task",
                                        "mark": "mark", "flush": "flush", "filler": "filler",
                                        "kernel": "kernel", "idle": "idle"}[a])(th):
                return True
        return False

    # -- finishing
    def finish_thread(self, th, close_regions=True):
        if th.state in ("U", "D"):
            return
        if th.out_of_cpu:
            self.emit(th, "KCI")
        if th.state in ("P", "W"):
            if not self.free_for_run(th.cpu, th):
                self.emit(th, "OAr", tf.i32(-1, th.tid))
            self.emit(th, "OHr")
        elif th.state == "C" and not self.w.models:
            pass
        elif th.state == "C":
            # cooling threads cannot emit events of running-only models: go through pause/resume
            self.emit(th, "OHp")
            if not self.free_for_run(th.cpu, th):
                self.emit(th, "OAr", tf.i32(-1, th.tid))
            self.emit(th, "OHr")
        if close_regions:
            self.unwind(th)
        self.emit(th, "OHe")

    def unwind(self, th):
        if th.chan[("ovni", "CH_FLUSH")] is not None:
            self.emit(th, "OF]")
        for k, mt in sorted(self.w.mark_types.items()):
            if mt["stack"]:
                while th.marks[k]:
                    self.emit(th, "OM]", tf.i64(th.marks[k][-1]) + tf.i32(k))
        for (m, ch, ty, mode, st) in self.m.quantities:
            if not st or m == "kernel":
                continue
            stack = th.chan[(m, ch)]
            guard = 0
            while stack and guard < 2000:
                guard += 1
                top = stack[-1]
                if top == W.TASK_BODY_LABEL.get(m) and th.bstack[m]:
                    b = th.bstack[m][-1]
                    if b.state == "paused":
                        self.emit_task(th, m, "r", b.task, b.id)
                    self.emit_task(th, m, "e", b.task, b.id)
                else:
                    self.emit(th, POP_OF[(m, ch, top)])

    def finish(self, skip=None, leave_open=None):
        for th in self.th:
            if th is skip:
                continue
            self.finish_thread(th, close_regions=(th is not leave_open))

    # -- faults (one illegal move)
    def inject_fault(self):
        """Try to apply one illegal action in the current state.  Returns kind or None."""
        r = self.rng
        kinds = ["badtrans", "oversub", "badcpu", "oar_bad", "pop_mismatch", "pop_empty", "wrong_state",
                 "task", "mark"]
        r.shuffle(kinds)
        for kind in kinds:
            if getattr(self, "fault_" + kind)():
                self.fault(kind)
                return kind
        return None

    def fault_badtrans(self):
        r = self.rng
        legal = {"U": "x", "R": "cpe", "C": "pe", "P": "wr", "W": "r", "D": ""}
        cands = [t for t in self.th if t.state != "D" and not t.out_of_cpu]
        if not cands:
            return False
        th = r.choice(cands)
        vs = [v for v in "xcpwre" if v not in legal[th.state]]
        if th.state == "U":
            vs = [v for v in vs if v != "x"]
        if not vs:
            return False
        v = r.choice(vs)
        if v == "x":
            self.emit(th, "OHx", ohx_payload(self.pick_cpu(th).index, th.tid))
        else:
            self.emit(th, "OH" + v)
        return True

    def fault_oversub(self):
        r = self.rng
        for th in r.sample(self.th, len(self.th)):
            if th.out_of_cpu:
                continue
            occupied = [c for c in th.loom.cpus if any(t.state == "R" and t is not th for t in c.threads)]
            if not occupied:
                continue
            cpu = r.choice(occupied)
            if th.state == "U":
                self.emit(th, "OHx", ohx_payload(cpu.index, th.tid))
                return True
            if th.state == "R" and th.cpu is not cpu:
                self.emit(th, "OAs", tf.i32(cpu.index))
                return True
            if th.state in ("P", "W") and th.cpu is cpu:
                self.emit(th, "OHr")
                return True
            if th.state in ("P", "W"):
                self.emit(th, "OAr", tf.i32(cpu.index, th.tid))
                self.emit(th, "OHr")
                return True
        return False

    def fault_badcpu(self):
        r = self.rng
        cands = [t for t in self.th if t.state in ("U", "R") and not t.out_of_cpu]
        if not cands:
            return False
        th = r.choice(cands)
        idx = len(th.loom.cpus) + r.below(3)
        if r.chance(30):
            idx = -2 - r.below(5)
        if th.state == "U":
            self.emit(th, "OHx", ohx_payload(idx, th.tid))
        else:
            self.emit(th, "OAs", tf.i32(idx))
        return True

    def fault_oar_bad(self):
        r = self.rng
        em = [t for t in self.th if t.state not in ("U", "D") and not t.out_of_cpu]
        if not em:
            return False
        th = r.choice(em)
        bad = [t for p in th.loom.procs for t in p.threads if t.state in ("U", "D")]
        if bad and r.chance(60):
            self.emit(th, "OAr", tf.i32(0, r.choice(bad).tid))
        else:
            self.emit(th, "OAr", tf.i32(0, 999999))
        return True

    def fault_pop_mismatch(self):
        r = self.rng
        for th in r.sample(self.th, len(self.th)):
            for (m, ch, ty, mode, st) in r.sample(self.m.quantities, len(self.m.quantities)):
                if not st or m == "kernel" or not self.model_ok(th, m):
                    continue
                stack = th.chan[(m, ch)]
                if not stack:
                    continue
                others = [p for p in PUSHES[m] if p[1] == ch and p[2] != stack[-1]]
                if not others:
                    continue
                lab = r.choice(others)[2]
                self.emit(th, POP_OF[(m, ch, lab)])
                return True
        return False

    def fault_pop_empty(self):
        r = self.rng
        for th in r.sample(self.th, len(self.th)):
            for (m, ch, ty, mode, st) in r.sample(self.m.quantities, len(self.m.quantities)):
                if not st or m == "kernel" or not self.model_ok(th, m):
                    continue
                if th.chan[(m, ch)]:
                    continue
                cands = [p for p in PUSHES[m] if p[1] == ch]
                if not cands:
                    continue
                self.emit(th, POP_OF[(m, ch, r.choice(cands)[2])])
                return True
        return False

    def fault_wrong_state(self):
        """Event of a model in a thread state the model forbids."""
        r = self.rng
        for th in r.sample(self.th, len(self.th)):
            if th.state in ("U", "D") or th.out_of_cpu:
                continue
            for m in r.sample(self.w.models, len(self.w.models)):
                pre = CAT[m]["precondition"]
                bad = (pre == "active" and not th.active) or (pre == "running" and not th.running)
                if not bad or not PUSHES[m]:
                    continue
                if IGNS[m] and r.chance(30):
                    # events that change no timeline are bound to the model's thread state like all others
                    self.emit(th, r.choice(IGNS[m]))
                    return True
                top = None
                mcv, ch, label = r.choice(PUSHES[m])
                st = th.chan[(m, ch)]
                if st and st[-1] == label:
                    continue
                self.emit(th, mcv)
                return True
        return False

    def fault_outofcpu(self):
        """nOS-V or base-model event from a thread the kernel has switched out (the emulator's rule; the
        repository's own test emu-nosv-events-from-outside-cpu pins it for the running state)."""
        r = self.rng
        if "kernel" not in self.w.models:
            return False
        for th in r.sample(self.th, len(self.th)):
            if th.state in ("U", "D"):
                continue
            if not th.out_of_cpu:
                self.emit(th, "KCO")
            pool = ["OB."]
            if "nosv" in self.w.models and th.active:
                pool += [p_[0] for p_ in PUSHES["nosv"]][:6] + IGNS["nosv"][:2]
            if self.w.mark_types:
                pool.append(None)
            mcv = r.choice(pool)
            if mcv is None:
                ty = r.choice(sorted(self.w.mark_types))
                mt = self.w.mark_types[ty]
                self.emit(th, "OM[" if mt["stack"] else "OM=", struct.pack("<qi", 5, ty))
            else:
                self.emit(th, mcv)
            return True
        return False

    TASK_FAULTS_RARE = ["nontop", "nontop_pause", "other_stack", "pause_parallel", "nest_running", "second_body", "rerun",
                        "bad_bodyid", "end_paused", "resume_running", "exec_running"]

    def fault_task(self, rare_only=False, only=None):
        r = self.rng
        rare = self.TASK_FAULTS_RARE
        common = ["unknown_task", "unknown_type", "dup_task", "dup_type"]
        for kinds in ([[only]] if only else [rare] if rare_only else [rare, common]):
            kinds = list(kinds)
            r.shuffle(kinds)
            for k in kinds:
                for th in r.sample(self.th, len(self.th)):
                    for m in self.task_models(th):
                        stack = th.bstack[m]
                        top = stack[-1] if stack else None
                        if self._task_fault(th, m, k, top):
                            self.fault("task:" + k)
                            return True
        return False

    def _task_fault(self, th, m, k, top):
        r = self.rng
        ch = CAT[m]["char"]
        p = th.proc
        tasks, types = p.tasks[m], p.types[m]
        ss = th.chan[(m, "CH_SUBSYSTEM")]
        if k == "unknown_task":
            self.emit(th, ch + "Tx", tf.u32(4242, 0) if m == "nosv" else tf.u32(4242))
            return True
        if k == "unknown_type":
            self.emit(th, ch + "Tc", tf.u32(777, 555))
            return True
        if k == "dup_task" and tasks and types:
            self.emit(th, ch + "Tc", tf.u32(r.choice(sorted(tasks)), r.choice(sorted(types))))
            return True
        if k == "dup_type" and types:
            self.emit(th, ch + "Yc", jumbo=tf.u32(r.choice(sorted(types))) + b"again\0")
            return True
        if k == "nontop" and len(th.bstack[m]) >= 2:
            b = th.bstack[m][0]
            v = "r" if b.state == "paused" else ("e" if b.state == "running" else None)
            if v is None:
                return False
            self.emit_task(th, m, v, b.task, b.id)
            return True
        if k == "nontop_pause" and len(th.bstack[m]) >= 2:
            for b in th.bstack[m][:-1]:
                if b.state == "running" and "pause" in b.task.flags:
                    self.emit_task(th, m, "p", b.task, b.id)
                    return True
            return False
        if k == "other_stack":
            for t2 in th.proc.threads:
                if t2 is th or not t2.bstack[m]:
                    continue
                b = t2.bstack[m][-1]
                if top is not None and top.state == "running" and "relax" not in top.task.flags:
                    continue
                v = r.choice(["x", "e" if b.state == "running" else "r"])
                self.emit_task(th, m, v, b.task, b.id)
                return True
            return False
        if k == "pause_parallel" and top is not None and top.state == "running" and "parallel" in top.task.flags:
            self.emit_task(th, m, "p", top.task, top.id)
            return True
        if k == "nest_running" and m == "nosv" and top is not None and top.state == "running":
            rt = [x for x in self.runnable_tasks(th, m)]
            if not rt:
                return False
            task, bid = r.choice(rt)
            self.emit_task(th, m, "x", task, bid)
            return True
        if k == "second_body" and m == "nosv":
            for task in tasks.values():
                if "parallel" not in task.flags and 1 in task.bodies and task.bodies[1].state != "dead":
                    if top is not None and top.state == "running":
                        return False
                    if task.bodies[1].owner is th:
                        continue
                    # wire format cannot name a second body of a non-parallel task other than via body id != 0
                    self.emit(th, ch + "Tx", tf.u32(task.id, 2))
                    return True
            return False
        if k == "rerun" and m == "nanos6":
            for task in tasks.values():
                b = task.bodies.get(1)
                if b is not None and b.state == "dead":
                    if top is not None and top.state == "running" and ss and ss[-1] == W.TASK_BODY_LABEL[m]:
                        return False
                    self.emit_task(th, m, "x", task, 1)
                    return True
            return False
        if k == "bad_bodyid" and m == "nosv":
            for task in tasks.values():
                if "parallel" in task.flags:
                    if top is not None and top.state == "running":
                        return False
                    self.emit(th, ch + "Tx", tf.u32(task.id, 0))
                    return True
            return False
        if k == "end_paused" and top is not None and top.state == "paused":
            self.emit_task(th, m, "e", top.task, top.id)
            return True
        if k == "resume_running" and top is not None and top.state == "running":
            self.emit_task(th, m, "r", top.task, top.id)
            return True
        if k == "exec_running" and top is not None and top.state in ("running", "paused"):
            self.emit_task(th, m, "x", top.task, top.id)
            return True
        return False

    def fault_mark(self):
        r = self.rng
        if not self.w.mark_types:
            return False
        cands = [t for t in self.th if t.state != "D" and not t.out_of_cpu]
        if not cands:
            return False
        th = r.choice(cands)
        kinds = ["undef", "zero", "mismatch", "empty", "wrongop"]
        r.shuffle(kinds)
        for k in kinds:
            if k == "undef":
                ty = next((x for x in range(100) if x not in self.w.mark_types), None)
                if ty is None:
                    continue
                self.emit(th, "OM=", tf.i64(5) + tf.i32(ty))
                self.fault("mark:undef")
                return True
            ty = r.choice(sorted(self.w.mark_types))
            mt = self.w.mark_types[ty]
            if k == "zero":
                self.emit(th, "OM[" if mt["stack"] else "OM=", tf.i64(0) + tf.i32(ty))
                self.fault("mark:zero")
                return True
            if k == "mismatch" and mt["stack"] and th.marks[ty]:
                # values that differ from the pushed one by one, or only above bit 31
                self.emit(th, "OM]", tf.i64(th.marks[ty][-1] + r.choice([1, 1, 2 ** 32, -2 ** 32, 2 ** 33, 2 ** 40])) + tf.i32(ty))
                self.fault("mark:mismatch")
                return True
            if k == "empty" and mt["stack"] and not th.marks[ty]:
                self.emit(th, "OM]", tf.i64(3) + tf.i32(ty))
                self.fault("mark:pop-empty")
                return True
            if k == "wrongop":
                self.emit(th, "OM=" if mt["stack"] else "OM[", tf.i64(9) + tf.i32(ty))
                self.fault("mark:wrong-op")
                return True
        return False


# ----------------------------------------------------------------------- runner
def materialise(case, on_record=None):
    """case -> (world, machine) with streams filled."""
    w = build_world(case["world"])
    m = W.Machine(w, lint=case.get("lint", False), on_record=on_record)
    ths = w.threads
    for (ti, mcv, ph, jh, dt) in case["actions"]:
        m.emit(ths[ti], mcv, bytes.fromhex(ph), None if jh is None else bytes.fromhex(jh), dt)
    w.default_meta()
    return w, m


def run_machine_case(case, ctx, keys_filter=None, post=None, extra_flags=(), on_record=None):
    """Shared oracle for machine-mode checks."""
    w, m = materialise(case, on_record=on_record)
    d = ctx.workdir()
    try:
        tdir = os.path.join(d, "ovni")
        streams = [t.stream for t in w.threads]
        extra = {}
        if any(l.skew for l in w.looms):
            # the offset table ovnisync would produce: minus the skew of each host
            lines = ["rank       hostname             offset_median        offset_mean         offset_std\n"]
            for n, (h, sk) in enumerate(sorted({(l.hostname, l.skew) for l in w.looms})):
                lines.append("%-10d %-20s %-20d %-19.3f %.3f\n" % (n, h, -sk, float(-sk), 2.0))
            extra["clock-offsets.txt"] = "".join(lines).encode()
            info_skew = True
        foreign = tf.foreign_paths(Rng(case["world"]["foreign"]), streams) if case["world"].get("foreign") else None
        tf.write_trace(tdir, streams, order=case.get("order"), extra_files=extra, foreign=foreign)
        flags = (["-l"] if case.get("lint") else []) + list(case.get("emuflags", [])) + list(extra_flags)
        if int(ihash(case["actions"])[6:10], 16) % 20 == 7 and "-b" not in flags:
            # (not together with -b: a model that is only forced on has none of the metadata its breakdown asks for)
            # all models forced on: the models the trace requires behave as before, the others see no events
            flags = ["-a"] + flags
        targ, tcwd = ctx.spell(tdir, int(ihash(case["actions"])[:6], 16))
        pre = int(ihash(case["actions"])[10:14], 16) % 25
        prestate = None
        if pre == 3:
            # output of an earlier emulation of something bigger is still lying in the trace directory
            prestate = "stale output files"
            junk = ("#Paraver (01/01/70 at 00:00):999999999_ns:0:1:1(9999:1)\n" + "2:0:1:1:9999:999999:1:1\n" * 20000).encode()
            for fn in ("thread.prv", "cpu.prv", "thread.pcf", "cpu.pcf", "thread.row", "cpu.row", "nosv-breakdown.prv", "nanos6-breakdown.prv"):
                with open(os.path.join(tdir, fn), "wb") as f:
                    f.write(junk)
        elif pre == 4:
            # the trace is emulated twice in a row (the second run finds the first one's outputs and cfg/ directory)
            prestate = "emulated twice"
            ctx.run_tool("ovniemu", flags + [targ], cwd=tcwd)
        status, out, err = ctx.run_tool("ovniemu", flags + [targ], cwd=tcwd)
        verdict = emu_verdict(status, err)
        exp, why = m.end_verdict()
        info = {"sim_ns": m.now, "size": len(case["actions"]), "ihash": ihash(case["actions"]), "verdict": "%s/%s" % (exp, verdict),
                "states": sorted(map(str, m.states_seen)), "faults": case.get("faults", {}),
                "probes": dict(case.get("probes", {}), **({"looms with skewed clocks + offset table": 1} if extra else {}),
                               **({"event-less stream of a non-thread part present": 1} if foreign else {}),
                               **({"pre-existing state: " + prestate: 1} if prestate else {}))}
        sample = {"world": w.describe(), "n_actions": len(case["actions"]),
                  "first_actions": [[a[0], a[1], a[2]] for a in case["actions"][:12]],
                  "expected": exp, "reason": why, "emulator": verdict}
        info["sample"] = sample
        tail = "\n--- tool stderr (tail) ---\n" + err.decode(errors="replace")[-1500:]
        if verdict.startswith("crash"):
            return result(False, "tool-crash", "tool-crash:" + verdict, "ovniemu %s on a well-formed trace\nexpected %s (%s)\n%s" % (verdict, exp, why, tail), **info)
        if exp == "dontcare":
            return result(True, **info)
        if exp != verdict:
            return result(False, "verdict-%s-expected-%s" % (verdict, exp), None,
                          "reference says %s (%s) but ovniemu says %s\n%s" % (exp, why, verdict, tail), **info)
        # timelines
        try:
            pvts = {"thread": Pvt(tdir, "thread"), "cpu": Pvt(tdir, "cpu")}
        except (PrvError, OSError) as e:
            if verdict == "accept":
                return result(False, "output-unparsable", None, "cannot parse outputs: %s" % e, **info)
            return result(True, **info)
        upto = m.first_illegal[0] if m.first_illegal else None
        errs = W.compare_timelines(m, pvts, keys_filter, upto=upto, accepted=(verdict == "accept"))
        if errs:
            kind = errs[0].split(" ")[0] + "-type-" + (errs[0].split("type ")[1].split(" ")[0] if "type " in errs[0] else "x")
            return result(False, "timeline-mismatch", "timeline-mismatch:" + kind, "\n".join(errs[:8]) + "\n(expected verdict %s)" % exp, **info)
        if post is not None:
            r = post(case, w, m, tdir, pvts, verdict, info)
            if r is not None:
                return r
        return result(True, **info)
    finally:
        ctx.cleanup(d)


def shrink_actions(case):
    """Structural candidates tried after ddmin over the action list: drop a
    whole thread (world and actions), then set all time steps to 1."""
    acts = case["actions"]
    # cut the history right after the first illegal move and re-generate a clean ending
    w, m = None, None
    try:
        g = Gen(__import__("sim.prng", fromlist=["Rng"]).Rng(1), case["world"], lint=case.get("lint", False))
        cut = None
        for i, (ti, mcv, ph, jh, dt) in enumerate(acts):
            g.emit(g.th[ti], mcv, bytes.fromhex(ph), None if jh is None else bytes.fromhex(jh), dt)
            if g.m.first_illegal is not None:
                cut = i + 1
                break
        if cut is not None and cut < len(acts):
            g.finish()
            if len(g.actions) < len(acts):
                c = dict(case)
                c["actions"] = g.actions
                yield c
    except Exception:
        pass
    # thread indexes follow creation order loom -> proc -> thread
    n = 0
    for li, l in enumerate(case["world"]["looms"]):
        for pi, p in enumerate(l["procs"]):
            for ti, t in enumerate(p["threads"]):
                idx = n
                n += 1
                if sum(len(pp["threads"]) for ll in case["world"]["looms"] for pp in ll["procs"]) <= 1:
                    continue
                import copy
                wd = copy.deepcopy(case["world"])
                pr = wd["looms"][li]["procs"][pi]
                del pr["threads"][ti]
                if not pr["threads"]:
                    del wd["looms"][li]["procs"][pi]
                    if not wd["looms"][li]["procs"]:
                        del wd["looms"][li]
                        if not wd["looms"]:
                            continue
                c = dict(case)
                c["world"] = wd
                c["actions"] = [[a[0] - (1 if a[0] > idx else 0)] + a[1:] for a in acts if a[0] != idx]
                yield c
    if any(x[4] > 1 for x in acts):
        c = dict(case)
        c["actions"] = [[x[0], x[1], x[2], x[3], 1] for x in acts]
        yield c
