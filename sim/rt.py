"""Python side of E1: plans for rtsim, running them, parsing histories,
expected streams (DESIGN §3.1)."""
import json
import os
import shutil
import struct
import subprocess

from . import tracefmt as tf
from .prng import Rng

CAP_SMALL = 4096


def _cap_real():
    """The staging-buffer capacity the tree under test declares (2 MiB at the
    pinned commit).  Read from the header so that a change of the constant moves
    the generators' aim instead of making them request sizes the API no longer
    accepts."""
    import re
    from . import build as _b
    try:
        src = open(os.path.join(_b.REPO, "include", "ovni.h.in")).read()
        m = re.search(r"#define OVNI_MAX_EV_BUF \(([^\n]*?)\)\s*(?:/\*|$)", src, re.M)
        expr = re.sub(r"(\d+)[uUlL]+", r"\1", m.group(1))
        if not re.fullmatch(r"[\d\s*+()<-]+", expr):
            raise ValueError(expr)
        v = int(eval(expr, {"__builtins__": {}}))
        if 4096 < v <= 64 * 1024 * 1024:
            return v
    except Exception:
        pass
    return 2 * 1024 * 1024


CAP_REAL = _cap_real()


def esc(s):
    s = str(s)
    out = []
    for ch in s:
        if ch in " %\n\t" or ord(ch) < 33:
            out.append("%%%02x" % ord(ch))
        else:
            out.append(ch)
    return "".join(out) if out else "-"


class Plan:
    def __init__(self, nthreads=1):
        self.knobs = {}
        self.ops = [[] for _ in range(nthreads)]     # per thread: list of [name, arg...]
        self.faults = []                              # (step, errno, shortn, readdir_eof)

    def op(self, th, name, *args):
        self.ops[th].append([name] + [str(a) for a in args])
        return len(self.ops[th]) - 1

    def to_case(self):
        return {"knobs": dict(self.knobs), "ops": [list(map(list, t)) for t in self.ops], "faults": [list(f) for f in self.faults]}

    @staticmethod
    def from_case(c):
        p = Plan(len(c["ops"]))
        p.knobs = dict(c["knobs"])
        p.ops = [[list(o) for o in t] for t in c["ops"]]
        p.faults = [tuple(f) for f in c.get("faults", [])]
        return p

    def render(self):
        lines = []
        for k, v in sorted(self.knobs.items()):
            if v is None or k in ("symlinks", "stale", "restart_from", "sibling"):      # prepared by run_plan, not by rtsim
                continue
            lines.append("knob %s %s" % (k, v))
        for i, t in enumerate(self.ops):
            lines.append("thread %d" % i)
        # interleave so that the file is readable; order across threads is irrelevant
        for i, t in enumerate(self.ops):
            for o in t:
                lines.append("op %d %s" % (i, " ".join([o[0]] + [esc(a) for a in o[1:]])))
        for f in self.faults:
            lines.append("fault %d %d %d %d" % tuple(f))
        return "\n".join(lines) + "\n"


class Step:
    __slots__ = ("k", "th", "op", "call", "req", "ret", "err", "path")

    def __init__(self, k, th, op, call, req, ret, err, path):
        self.k, self.th, self.op, self.call, self.req, self.ret, self.err, self.path = k, th, op, call, req, ret, err, path

    def __repr__(self):
        return "S%d(t%d op%d %s req=%d ret=%d err=%d %s)" % (self.k, self.th, self.op, self.call, self.req, self.ret, self.err, self.path)


class History:
    def __init__(self, text):
        self.steps = []
        self.clocks = {}        # (th, op) -> [values]
        self.allclocks = []     # (th, op, value) in order
        self.op_begin = {}      # (th, op) -> name
        self.op_end = set()
        self.end = None         # 'done' | 'abort' | 'crash' | 'deadlock'
        self.abort = None       # (step, th, op)
        self.sched = ""
        self.nyields = 0
        self.killed = None
        self.ready = {}
        self.order = []         # sequence of ('B'|'E', th, op)
        for line in text.splitlines():
            if not line:
                continue
            p = line.split(" ")
            t = p[0]
            if t == "S":
                self.steps.append(Step(int(p[1]), int(p[2]), int(p[3]), p[4], int(p[5]), int(p[6]), int(p[7]), " ".join(p[8:])))
            elif t == "C":
                th, op, v = int(p[1]), int(p[2]), int(p[3])
                self.clocks.setdefault((th, op), []).append(v)
                self.allclocks.append((th, op, v))
            elif t == "O":
                th, op = int(p[1]), int(p[2])
                if p[3] == "B":
                    self.op_begin[(th, op)] = p[4]
                    self.order.append(("B", th, op))
                else:
                    self.op_end.add((th, op))
                    self.order.append(("E", th, op))
            elif t == "A":
                self.abort = (int(p[1]), int(p[2]), int(p[3]))
            elif t == "K":
                self.killed = line
            elif t == "Y":
                self.nyields = int(p[1])
                self.sched = p[2] if len(p) > 2 else ""
            elif t == "R":
                self.ready[(int(p[1]), int(p[2]))] = int(p[3])
            elif t == "X":
                self.end = p[1]

    def digest(self):
        import hashlib
        h = hashlib.sha256()
        for s in self.steps:
            h.update(repr(s).encode())
        h.update(repr(self.allclocks).encode())
        h.update(self.sched.encode())
        h.update(str(self.end).encode())
        return h.hexdigest()[:16]


class RunOut:
    def __init__(self, status, hist, stderr, root):
        self.status, self.hist, self.stderr, self.root = status, hist, stderr, root


def run_plan(ctx, plan, workdir, variant="real", san="asan", timeout=120):
    """Executes the plan in a fresh rtsim process; the directory tree is left
    under workdir/root for the caller to inspect (caller cleans workdir)."""
    root = os.path.join(workdir, "root")
    if os.path.exists(root):
        shutil.rmtree(root)
    os.makedirs(root)
    for spec in filter(None, str(plan.knobs.get("symlinks") or "").split(",")):
        # pre-existing state of the file system: <link>:<target directory>, both relative to the root
        link, target = spec.split(":")
        os.makedirs(os.path.join(root, target))
        os.symlink(target, os.path.join(root, link))
    if plan.knobs.get("restart_from"):
        # restart in place: the trace directory of an earlier, complete incarnation is what this one starts on
        shutil.copytree(plan.knobs["restart_from"], os.path.join(root, (plan.knobs.get("tracedir") or "ovni").rstrip("/")))
    if plan.knobs.get("sibling"):
        # another process of the same loom got there first: its directories exist and hold a complete stream
        loom, pid, tid = str(plan.knobs["sibling"]).split(":")
        sd = os.path.join(root, (plan.knobs.get("tracedir") or "ovni").rstrip("/"), "loom." + loom, "proc." + pid, "thread." + tid)
        os.makedirs(sd)
        evs = [tf.Ev("OHx", 10 ** 9 + 5, struct.pack("<iiQ", -1, int(tid), 0)), tf.Ev("OB.", 10 ** 9 + 6), tf.Ev("OHe", 10 ** 9 + 7)]
        with open(os.path.join(sd, "stream.obs"), "wb") as f:
            f.write(tf.HEADER + b"".join(e.encode() for e in evs))
        with open(os.path.join(sd, "stream.json"), "w") as f:
            json.dump(tf.base_meta(loom, int(pid), int(tid), app_id=2), f)
    for spec in filter(None, str(plan.knobs.get("stale") or "").split(",")):
        # what an earlier incarnation of the same program (same loom, PID and TIDs: a container, a batch job restarted
        # in place) left behind: <thread directory relative to the root>:<number of old events>
        rel, nev = spec.rsplit(":", 1)
        d = os.path.join(root, rel)
        os.makedirs(d, exist_ok=True)
        old = tf.HEADER + b"".join(tf.enc("OB.", 5 * 10 ** 12 + k, struct.pack("<Q", k)) for k in range(int(nev)))
        with open(os.path.join(d, "stream.obs"), "wb") as f:
            f.write(old)
        with open(os.path.join(d, "stream.json"), "w") as f:
            f.write('{"version": 3, "ovni": {"lib": {"version": "1.11.0", "commit": "old"}, "part": "thread", "tid": %s, "pid": 1, '
                    '"loom": "old", "app_id": 1, "require": {"ovni": "1.1.0"}, "finished": 1}, "stale": true}\n' % rel.rsplit(".", 1)[-1])
    planf = os.path.join(workdir, "plan.txt")
    with open(planf, "w") as f:
        f.write(plan.render())
    histf = os.path.join(workdir, "history.txt")
    if os.path.exists(histf):
        os.unlink(histf)
    exe = ctx.build.rtsim(variant, san)
    env = {"PATH": "/usr/bin:/bin",
           "ASAN_OPTIONS": "detect_leaks=0:abort_on_error=0:exitcode=77:allocator_may_return_null=1",
           "UBSAN_OPTIONS": "print_stacktrace=1:halt_on_error=1:exitcode=78",
           "TSAN_OPTIONS": "halt_on_error=0:exitcode=66:report_signal_unsafe=0:history_size=4"}
    try:
        from .framework import die_with_parent
        p = subprocess.run([exe, planf, root, histf], env=env, stdin=subprocess.DEVNULL,
                           stdout=subprocess.PIPE, stderr=subprocess.PIPE, timeout=timeout, preexec_fn=die_with_parent)
        status = p.returncode if p.returncode >= 0 else "signal:%d" % (-p.returncode)
        err = p.stderr
    except subprocess.TimeoutExpired as e:
        status, err = "timeout", (e.stderr or b"")
    text = ""
    if os.path.exists(histf):
        text = open(histf, "r", errors="replace").read()
    return RunOut(status, History(text), err.decode(errors="replace"), root)


# ------------------------------------------------------------ expected streams
def jumbo_data(size, seed, prefix_hex="-"):
    data = bytearray(Rng(seed).bytes(size))
    if prefix_hex not in ("-", "", None):
        pre = bytes.fromhex(prefix_hex)[:size]
        data[:len(pre)] = pre
    return bytes(data)


def expected_user_events(ops, hist, th, upto_op=None):
    """The exact events (tf.Ev) a thread handed to the library, in call order,
    for ops that *began*.  Returns list of (opidx, Ev)."""
    out = []
    for i, o in enumerate(ops):
        if upto_op is not None and i >= upto_op:
            break
        name = o[0]
        if name not in ("emit", "jumbo", "mark_push", "mark_pop", "mark_set"):
            continue
        if (th, i) not in hist.op_begin:
            break
        cl = hist.clocks.get((th, i), [])
        if name in ("emit", "jumbo"):
            if o[2] == "now":
                if not cl:
                    break
                clock = cl[0]
            else:
                clock = int(o[2])
            if name == "emit":
                pl = b"" if o[3] in ("-", "") else bytes.fromhex(o[3])
                out.append((i, tf.Ev(o[1], clock, pl)))
            else:
                out.append((i, tf.Ev(o[1], clock, b"", jumbo_data(int(o[3]), int(o[4]), o[5] if len(o) > 5 else "-"))))
        else:
            if not cl:
                break
            mcv = {"mark_push": "OM[", "mark_pop": "OM]", "mark_set": "OM="}[name]
            out.append((i, tf.Ev(mcv, cl[0], struct.pack("<qi", int(o[2]), int(o[1])))))
    return out


def ev_size(ev):
    return len(ev.encode())


def is_flush_marker(ev):
    return ev.mcv in ("OF[", "OF]") and ev.jumbo is None and len(ev.payload) == 0


class FillModel:
    """Generator-side arithmetic of the staging buffer fill level (a heuristic
    used only to aim events at the buffer-full boundary; never an oracle)."""

    def __init__(self, cap):
        self.cap = cap
        self.len = 0
        self.total = 8      # bytes of the stream so far (header + everything ever added)

    def add(self, size):
        flushed = False
        self.total += size
        if self.len + size >= self.cap:
            self.len = 0
            flushed = True
        self.len += size
        if flushed:
            self.add(12)
            self.add(12)
        return flushed

    def flush(self):
        self.len = 0
        self.add(12)
        self.add(12)
