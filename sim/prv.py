"""Independent parsers for the Paraver files the emulator writes."""
import os
import re


class PrvError(Exception):
    pass


HDR = re.compile(r"^#Paraver \([^)]*\):(\d+)(?:_ns)?:0:1:1\((\d+):1\)")


class Prv:
    def __init__(self, path):
        self.path = path
        self.lines = []   # (time, row, type, value) in file order
        with open(path, "r", errors="replace") as f:
            first = f.readline().rstrip("\n")
            m = HDR.match(first)
            if not m:
                raise PrvError("bad header %r" % first)
            self.duration = int(m.group(1))
            self.nrows = int(m.group(2))
            for ln, line in enumerate(f, 2):
                line = line.rstrip("\n")
                p = line.split(":")
                if len(p) != 8 or p[0] != "2" or p[1:4] != ["0", "1", "1"]:
                    raise PrvError("bad line %d: %r" % (ln, line))
                try:
                    row, t, ty, v = int(p[4]), int(p[5]), int(p[6]), int(p[7])
                except ValueError:
                    raise PrvError("bad ints line %d: %r" % (ln, line))
                self.lines.append((t, row, ty, v))

    def series(self):
        """dict (row,type) -> list of (time, value), file order."""
        d = {}
        for t, row, ty, v in self.lines:
            d.setdefault((row, ty), []).append((t, v))
        return d

    def step_functions(self):
        """dict (row,type) -> list of (time, value) with the last value written
        at each time only (the value that holds after that instant) and with
        no-op repetitions removed."""
        out = {}
        for k, lst in self.series().items():
            res = []
            for t, v in lst:
                if res and res[-1][0] == t:
                    res[-1] = (t, v)
                else:
                    res.append((t, v))
            # remove repeats
            res2 = []
            for t, v in res:
                if res2 and res2[-1][1] == v:
                    continue
                res2.append((t, v))
            out[k] = res2
        return out


def value_at(steps, t):
    """Value of a step function (list of (time,value), sorted) at time t
    (after all lines at t). 0 when nothing was written yet."""
    lo, hi = 0, len(steps)
    while lo < hi:
        mid = (lo + hi) // 2
        if steps[mid][0] <= t:
            lo = mid + 1
        else:
            hi = mid
    if lo == 0:
        return 0
    return steps[lo - 1][1]


class Pcf:
    def __init__(self, path):
        self.types = {}  # id -> (label, {value: label})
        cur = None
        mode = None
        with open(path, "r", errors="replace") as f:
            for line in f:
                line = line.rstrip("\n")
                if line == "EVENT_TYPE":
                    mode = "type"
                    continue
                if line == "VALUES":
                    mode = "values"
                    continue
                if line == "":
                    if mode == "values":
                        mode = None
                    continue
                if mode == "type":
                    m = re.match(r"^\S+\s+(\d+)\s+(.*)$", line)
                    if not m:
                        raise PrvError("bad pcf type line %r" % line)
                    cur = int(m.group(1))
                    if cur in self.types:
                        raise PrvError("pcf type %d twice" % cur)
                    self.types[cur] = (m.group(2).strip(), {})
                    mode = "aftertype"
                elif mode == "values":
                    m = re.match(r"^(-?\d+)\s+(.*)$", line)
                    if not m:
                        raise PrvError("bad pcf value line %r" % line)
                    v = int(m.group(1))
                    if v in self.types[cur][1]:
                        raise PrvError("pcf value %d twice in type %d" % (v, cur))
                    # labels are compared modulo surrounding blanks (the writer pads columns)
                    self.types[cur][1][v] = m.group(2).strip()

    def label(self, ty, v):
        t = self.types.get(ty)
        if t is None:
            return None
        return t[1].get(v)


class Row:
    def __init__(self, path):
        with open(path, "r", errors="replace") as f:
            lines = f.read().split("\n")
        if lines[0] != "LEVEL NODE SIZE 1" or lines[1] != "hostname" or lines[2] != "":
            raise PrvError("bad row header %r" % lines[:3])
        m = re.match(r"^LEVEL THREAD SIZE (\d+)$", lines[3])
        if not m:
            raise PrvError("bad row size line %r" % lines[3])
        self.declared = int(m.group(1))
        rest = lines[4:]
        if rest and rest[-1] == "":
            rest = rest[:-1]
        self.names = [n.strip() for n in rest]


class Pvt:
    def __init__(self, d, name):
        self.name = name
        self.prv = Prv(os.path.join(d, name + ".prv"))
        self.pcf = Pcf(os.path.join(d, name + ".pcf"))
        self.row = Row(os.path.join(d, name + ".row"))
        self._steps = None

    @property
    def steps(self):
        if self._steps is None:
            self._steps = self.prv.step_functions()
        return self._steps

    def at(self, row, ty, t):
        s = self.steps.get((row, ty))
        if not s:
            return 0
        return value_at(s, t)

    def label_at(self, row, ty, t):
        v = self.at(row, ty, t)
        if v == 0:
            return None
        l = self.pcf.label(ty, v)
        return l if l is not None else "<unlabeled %d>" % v
