"""Rebuild what the checks need from /repo's *current working tree*.

Products are keyed by a hash of the source files, under /verif/.build/<hash>/,
so that 18 checks in a row on the same tree compile once.  At most two trees
are kept.
"""
import fcntl
import hashlib
import os
import shutil
import subprocess
import sys
import time

REPO = os.environ.get("VERIF_REPO", "/repo")
VERIF = os.path.dirname(os.path.dirname(os.path.abspath(__file__)))
# VERIF_SCRATCH (experiments against scratch copies of the repository only, e.g.
# tools/try_mutant.sh): builds, replay files and evidence go there instead of /verif
OUTDIR = os.environ.get("VERIF_SCRATCH") or VERIF
BROOT = os.path.join(OUTDIR, ".build")
SRC_DIRS = ["src", "include", "cmake", "cfg"]
SRC_FILES = ["CMakeLists.txt"]
TOOLS = ["ovniemu", "ovnidump", "ovnisort", "ovnitop", "ovnievents"]


def tree_hash():
    h = hashlib.sha256()
    files = []
    for d in SRC_DIRS:
        top = os.path.join(REPO, d)
        for dp, dn, fn in os.walk(top):
            dn.sort()
            for f in sorted(fn):
                files.append(os.path.join(dp, f))
    for f in SRC_FILES:
        files.append(os.path.join(REPO, f))
    # the harness sources are part of the key too
    for d in ("rt", "aux"):
        top = os.path.join(VERIF, d)
        for dp, dn, fn in os.walk(top):
            dn.sort()
            for f in sorted(fn):
                if f.endswith((".c", ".h", ".py", ".sh")):
                    files.append(os.path.join(dp, f))
    files.append(os.path.abspath(__file__))
    for p in files:
        try:
            with open(p, "rb") as f:
                data = f.read()
        except OSError:
            continue
        h.update(p.encode() + b"\0" + str(len(data)).encode() + b"\0")
        h.update(data)
    return h.hexdigest()[:16]


def _run(cmd, cwd=None, log=None):
    r = subprocess.run(cmd, cwd=cwd, stdout=subprocess.PIPE, stderr=subprocess.STDOUT)
    if log:
        with open(log, "ab") as f:
            f.write(("$ " + " ".join(cmd) + "\n").encode())
            f.write(r.stdout)
    if r.returncode != 0:
        sys.stderr.write(r.stdout.decode(errors="replace")[-6000:])
        raise SystemExit("BUILD FAILED: " + " ".join(cmd))


SAN = "-fsanitize=address,undefined -fno-sanitize-recover=undefined -fno-omit-frame-pointer"


def _cmake(bdir, cflags, log):
    os.makedirs(bdir, exist_ok=True)
    _run(["cmake", "-G", "Ninja", "-S", REPO, "-B", bdir,
          "-DCMAKE_BUILD_TYPE=Release",
          "-DCMAKE_C_FLAGS_RELEASE=",
          "-DCMAKE_C_FLAGS=-Wno-error " + cflags,
          "-DUSE_MPI=OFF", "-DBUILD_TESTING=OFF",
          "-DCMAKE_INTERPROCEDURAL_OPTIMIZATION=OFF",
          "-DOVNI_GIT_COMMIT=verif",
          "-DCMAKE_INSTALL_PREFIX=" + os.path.join(bdir, "inst"),
          "-Wno-dev"], log=log)
    _run(["ninja", "-C", bdir] + TOOLS, log=log)


def _build_tools(out, log):
    _cmake(os.path.join(out, "plain"), "-O2 -g0", log)
    _cmake(os.path.join(out, "asan"), "-O1 -g " + SAN + " -DOVNI_VERIF", log)


def _gen_ovni_h(dst, evbuf=None):
    src = open(os.path.join(REPO, "include", "ovni.h.in")).read()
    src = src.replace("@PROJECT_VERSION@", "1.11.0").replace("@OVNI_GIT_COMMIT@", "verif")
    if evbuf is not None:
        import re
        src, n = re.subn(r"#define OVNI_MAX_EV_BUF \([^\n]*\)[^\n]*",
                         "#define OVNI_MAX_EV_BUF (%dLL)" % evbuf, src)
        if n != 1:
            raise SystemExit("BUILD FAILED: cannot patch OVNI_MAX_EV_BUF")
    os.makedirs(dst, exist_ok=True)
    with open(os.path.join(dst, "ovni.h"), "w") as f:
        f.write(src)


WRAPS = ["open", "write", "close", "mkdir", "stat", "fopen", "remove", "rmdir",
         "opendir", "readdir", "closedir", "clock_gettime", "getenv", "abort",
         "rename", "unlink", "fsync", "fdatasync", "fcntl"]

SMALL_EVBUF = 4096


def _build_rtsim(out, log):
    rt = os.path.join(VERIF, "rt")
    if not os.path.exists(os.path.join(rt, "rtsim.c")):
        return
    wrap = ",".join("--wrap=" + w for w in WRAPS)
    for variant, evbuf in (("real", None), ("small", SMALL_EVBUF)):
        for san, sflags in (("asan", "-O1 -g " + SAN), ("tsan", "-O1 -g -fsanitize=thread")):
            d = os.path.join(out, "rtsim-%s-%s" % (variant, san))
            inc = os.path.join(d, "inc")
            _gen_ovni_h(inc, evbuf)
            common = ["-std=gnu11", "-D_GNU_SOURCE", "-I", inc,
                      "-I", os.path.join(REPO, "src"), "-I", os.path.join(REPO, "src", "include"),
                      "-I", rt, "-pthread"]
            objs = []
            # instrumented: the three repo translation units (+ compat.c)
            for src in ("src/rt/ovni.c", "src/common.c", "src/parson.c", "src/compat.c"):
                o = os.path.join(d, os.path.basename(src) + ".o")
                _run(["gcc", "-c"] + sflags.split() + common +
                     ["-include", os.path.join(rt, "sim_atomics.h"),
                      "-w", os.path.join(REPO, src), "-o", o], log=log)
                objs.append(o)
            # driver: instrumented too (it calls the API from the threads)
            o = os.path.join(d, "rtsim.o")
            _run(["gcc", "-c"] + sflags.split() + common + ["-Wall", os.path.join(rt, "rtsim.c"), "-o", o], log=log)
            objs.append(o)
            # scheduler + seams: never TSan-instrumented (no happens-before from the hand-off)
            nosan = "-O1 -g" if san == "tsan" else sflags
            for src in ("sched.c", "seams.c"):
                o = os.path.join(d, src + ".o")
                _run(["gcc", "-c"] + nosan.split() + common + ["-Wall", os.path.join(rt, src), "-o", o], log=log)
                objs.append(o)
            _run(["gcc"] + sflags.split() + objs + ["-Wl," + wrap, "-pthread", "-o", os.path.join(d, "rtsim")], log=log)


def _build_aux(out, log):
    aux = os.path.join(VERIF, "aux")
    d = os.path.join(out, "aux")
    os.makedirs(d, exist_ok=True)
    inc = os.path.join(d, "inc")
    _gen_ovni_h(inc)
    common = ["-std=gnu11", "-D_GNU_SOURCE", "-D_POSIX_C_SOURCE=200809L", "-I", inc,
              "-I", os.path.join(REPO, "src"), "-I", os.path.join(REPO, "src", "include"),
              "-I", os.path.join(REPO, "src", "emu"), "-w", "-O1", "-g"] + SAN.split()
    emulib = os.path.join(out, "asan", "src", "emu", "libemu.a")
    libs = [emulib,
            os.path.join(out, "asan", "src", "libparson-static.a"),
            os.path.join(out, "asan", "src", "rt", "libovni-static.a"),
            os.path.join(out, "asan", "src", "libcommon-static.a")]
    shim = os.path.join(aux, "shortio.c")
    if os.path.exists(shim):
        _run(["gcc", "-std=gnu11", "-O1", "-w", "-shared", "-fPIC", shim, "-ldl", "-o", os.path.join(d, "shortio.so")], log=log)
    for name in ("heap_harness", "task_harness", "sort_harness"):
        src = os.path.join(aux, name + ".c")
        if not os.path.exists(src):
            continue
        _run(["gcc"] + common + [src] + libs + ["-lm", "-o", os.path.join(d, name)], log=log)


class Build:
    def __init__(self, root):
        self.root = root

    def tool(self, name, san=False):
        return os.path.join(self.root, "asan" if san else "plain", "src", "emu", name)

    def rtsim(self, variant="real", san="asan"):
        return os.path.join(self.root, "rtsim-%s-%s" % (variant, san), "rtsim")

    def aux(self, name):
        return os.path.join(self.root, "aux", name)

    @property
    def cfgdir(self):
        return os.path.join(self.root, "emptycfg")


def ensure(verbose=False):
    os.makedirs(BROOT, exist_ok=True)
    lockf = open(os.path.join(BROOT, ".lock"), "w")
    fcntl.flock(lockf, fcntl.LOCK_EX)
    try:
        h = tree_hash()
        out = os.path.join(BROOT, h)
        stamp = os.path.join(out, "OK")
        if not os.path.exists(stamp):
            t0 = time.time()
            if os.path.exists(out):
                shutil.rmtree(out)
            os.makedirs(out)
            log = os.path.join(out, "build.log")
            _build_tools(out, log)
            _build_rtsim(out, log)
            _build_aux(out, log)
            os.makedirs(os.path.join(out, "emptycfg"), exist_ok=True)
            with open(stamp, "w") as f:
                f.write("%.1f\n" % (time.time() - t0))
            if verbose:
                print("built %s in %.1fs" % (h, time.time() - t0), file=sys.stderr)
        else:
            os.utime(stamp)
        # keep at most two trees
        trees = []
        for n in os.listdir(BROOT):
            p = os.path.join(BROOT, n)
            if os.path.isdir(p) and n != h:
                st = os.path.join(p, "OK")
                trees.append((os.path.getmtime(st) if os.path.exists(st) else 0, p))
        trees.sort(reverse=True)
        for _, p in trees[1:]:
            shutil.rmtree(p, ignore_errors=True)
        return Build(out)
    finally:
        fcntl.flock(lockf, fcntl.LOCK_UN)
        lockf.close()


if __name__ == "__main__":
    b = ensure(verbose=True)
    print(b.root)
