"""Generators of rtsim plans (programs using libovni) shared by C01, C02, C09, C10, C11, C17."""
import os
import struct

from . import rt
from . import tracefmt as tf

LOOM = "node.7"
PID = 77


def base_knobs(r, allow_faulty_io=True):
    k = {}
    k["clock_seed"] = r.u64() >> 1
    k["clock_mode"] = r.choice([0, 0, 1, 2])
    k["sched_seed"] = r.u64() >> 1
    k["strategy"] = r.choice([0, 1, 2, 3])
    k["stdio_buf"] = r.choice([512, 1024, 4096, 8192, 65536])
    if r.chance(50):
        k["tmpdir"] = r.choice(["tmp", "scratch/t", "tmp/", "scratch/a/b/t"])
    if r.chance(50):
        k["tracedir"] = r.choice(["out/ovni", "a/b/ovni", "trace", "out/ovni/", "a/b/c/d/e/f/ovni", "./trace"])
    if r.chance(8):
        # an existing component of the trace (or temporary) directory is a symbolic link to a directory
        k["symlinks"] = "lnk:real/deep"
        if r.chance(60) or "tmpdir" not in k:
            k["tracedir"] = r.choice(["lnk/ovni", "lnk/a/ovni"])
        else:
            k["tmpdir"] = "lnk/t"
    if k.get("tmpdir") and not k.get("symlinks") and r.chance(6):
        # OVNI_TMPDIR names the trace directory itself (literally or through an alias): nothing to relocate
        td = (k.get("tracedir") or "ovni").rstrip("/")
        k["tmpdir"] = r.choice([td, "./" + td, td + "/", td.replace("/", "//", 1) if "/" in td else td + "/."])
    if r.chance(8):
        k["close_stdin"] = 1        # the process runs with descriptor 0 closed (0 is then a valid stream descriptor)
    k["readdir"] = r.choice([0, 1, 2, 3 + r.below(1000)])
    if allow_faulty_io and r.chance(50):
        k["shortw_seed"] = 1 + (r.u64() >> 1)
        k["shortw_pct"] = r.choice([5, 30, 100])
    return k


def tracedir_of(knobs):
    return knobs.get("tracedir") or "ovni"


def stream_dir(root, knobs, tid, loom=LOOM, pid=PID):
    return os.path.join(root, tracedir_of(knobs), "loom." + loom, "proc.%d" % pid, "thread.%d" % tid)


def add_stale(knobs, tids, r, loom=LOOM, pid=PID):
    """Pre-existing state: thread directories of an earlier incarnation (same loom, PID, TIDs) with longer, finished
    streams in the final and/or the temporary directory."""
    specs = []
    for tid in tids:
        if not r.chance(70):
            continue
        where = []
        if r.chance(70) or not knobs.get("tmpdir"):
            where.append(tracedir_of(knobs))
        if knobs.get("tmpdir") and (r.chance(60) or not where):
            where.append(knobs["tmpdir"])
        for base in where:
            specs.append("%s:%d" % (os.path.join(base.rstrip("/"), "loom." + loom, "proc.%d" % pid, "thread.%d" % tid), r.choice([1, 40, 400, 5000])))
    if specs:
        knobs["stale"] = ",".join(specs)


def tmp_stream_dir(root, knobs, tid, loom=LOOM, pid=PID):
    if not knobs.get("tmpdir"):
        return None
    return os.path.join(root, knobs["tmpdir"], "loom." + loom, "proc.%d" % pid, "thread.%d" % tid)


def rand_mcv(r, reserved=("OF[", "OF]")):
    while True:
        m = "".join(chr(r.randint(33, 126)) for _ in range(3))
        if m not in reserved:
            return m


def payload_hex(r, size):
    return r.bytes(size).hex() if size else "-"


class Prog:
    """Builds a plan for `nthreads` tracing threads of one process, keeping a
    per-thread fill-level heuristic to aim at the buffer-full boundary."""

    def __init__(self, r, nthreads, cap, knobs, stale_pct=0):
        self.r = r
        self.cap = cap
        self.plan = rt.Plan(nthreads)
        self.plan.knobs = knobs
        self.fill = [rt.FillModel(cap) for _ in range(nthreads)]
        self.tids = [101 + i * 3 for i in range(nthreads)]
        self.nthreads = nthreads
        self.boundaries = 0
        if stale_pct and r.derive("stale").chance(stale_pct) and not knobs.get("symlinks"):
            add_stale(knobs, self.tids, r.derive("stale-where"))

    def start(self, conformant=True, cpus=((0, 0),), require=()):
        p = self.plan
        if conformant:
            p.op(0, "version_check", "1.11.0")
        p.op(0, "proc_init", 1, LOOM, PID)
        for t in range(self.nthreads):
            if t > 0:
                p.op(t, "wait", 0, 2 if conformant else 1)
            p.op(t, "thread_init", self.tids[t])
            self.fill[t].len = 0
            for (m, v) in require:
                p.op(t, "require", m, v)
            if t == 0 or self.r.chance(50):
                for (i, ph) in cpus:
                    p.op(t, "add_cpu", i, ph)

    def emit(self, t, mcv, clock, size_or_hex):
        if isinstance(size_or_hex, int):
            ph = payload_hex(self.r, size_or_hex)
            n = size_or_hex
        else:
            ph = size_or_hex
            n = 0 if ph == "-" else len(ph) // 2
        self.plan.op(t, "emit", mcv, clock, ph)
        if self.fill[t].add(12 + n):
            self.boundaries += 1

    def jumbo(self, t, mcv, clock, size, prefix="-"):
        self.plan.op(t, "jumbo", mcv, clock, size, self.r.u64() >> 1, prefix)
        if self.fill[t].add(16 + size):
            self.boundaries += 1

    def mark(self, t, kind, ty, val):
        self.plan.op(t, "mark_" + kind, ty, val)
        if self.fill[t].add(24):
            self.boundaries += 1

    def flush(self, t):
        self.plan.op(t, "flush")
        self.fill[t].flush()

    def fill_to(self, t, target_len, mcv, clock):
        """Add one jumbo filler so that the fill level becomes target_len (if possible)."""
        cur = self.fill[t].len
        need = target_len - cur
        if need < 16:
            return False
        if need - 16 + 16 >= self.cap:
            return False
        self.jumbo(t, mcv, clock, need - 16)
        return True

    def finish(self, conformant=True):
        p = self.plan
        for t in range(self.nthreads):
            self.flush(t)
            p.op(t, "thread_free")
        for t in range(1, self.nthreads):
            p.op(0, "wait", t, len(p.ops[t]))
        p.op(0, "proc_fini")


def check_stream_against_log(obs, expected, strict_header=True):
    """C01 oracle. Returns None or (class, message)."""
    try:
        dec = tf.decode(obs)
    except tf.DecodeError as e:
        return ("stream-not-tiled", str(e))
    got = [e for _, e in dec if not rt.is_flush_marker(e)]
    exp = [e for _, e in expected]
    n = min(len(got), len(exp))
    for i in range(n):
        if got[i].encode() != exp[i].encode():
            return ("event-bytes-differ", "event #%d: stream has %r, thread emitted %r (op %d)" % (i, got[i], exp[i], expected[i][0]))
    if len(got) < len(exp):
        return ("event-missing", "stream has %d user events, thread emitted %d; first missing: %r (op %d)"
                % (len(got), len(exp), exp[n], expected[n][0]))
    if len(got) > len(exp):
        return ("event-duplicated-or-invented", "stream has %d user events, thread emitted %d; extra: %r" % (len(got), len(exp), got[n]))
    return None


def validate_stream(obs):
    """C02 validator: tiling, non-decreasing clocks, properly paired non-nested flush markers.
    Returns None or (class, message)."""
    try:
        dec = tf.decode(obs)
    except tf.DecodeError as e:
        return ("stream-not-tiled", str(e))
    prev = None
    inflush = False
    for off, e in dec:
        if prev is not None and e.clock < prev:
            return ("clock-decreases", "clock %d after %d at offset %d (%s)" % (e.clock, prev, off, e.mcv))
        prev = e.clock
        if rt.is_flush_marker(e):
            if e.mcv == "OF[":
                if inflush:
                    return ("flush-markers-nested", "OF[ inside an open OF[ at offset %d" % off)
                inflush = True
            else:
                if not inflush:
                    return ("flush-markers-unpaired", "OF] without OF[ at offset %d" % off)
                inflush = False
    if inflush:
        return ("flush-markers-unpaired", "stream ends inside OF[")
    return None
