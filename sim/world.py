"""The simulated traced machine and its executable reference model (DESIGN §3.2, App. A).

The model is written from properties.jsonl and doc/user/emulation/*.md; the only
tables copied are in data/catalogue.json (frozen, hand-reviewed).
"""
import json
import os
import struct

from . import tracefmt as tf

HERE = os.path.dirname(os.path.abspath(__file__))
CATALOGUE = json.load(open(os.path.join(HERE, "..", "data", "catalogue.json")))

BASE_CLOCK = 10 ** 13          # keeps corrected clocks positive under any skew used
STATE_LABEL = {"R": "Running", "P": "Paused", "D": "Dead", "C": "Cooling", "W": "Warming"}
TASK_BODY_LABEL = {"nosv": "Task: In body", "nanos6": "Task: Running body"}
MODEL_BY_CHAR = {v["char"]: k for k, v in CATALOGUE.items()}
STACK_LIMIT = 512

# Paraver types
T_CPU_PID, T_TID, T_CPU_NRUN, T_TH_STATE, T_TH_CPU, T_FLUSH = 1, 2, 3, 4, 6, 7
LABEL_TYPES = {4, 6, 7, 11, 13, 16, 17, 20, 25, 30, 36, 37, 39, 40, 41, 45, 50}
FINISH_LABEL_TYPES = {11, 36}     # labels that are only written when emulation finishes


class Cpu:
    def __init__(self, loom, index, phyid, virtual=False):
        self.loom, self.index, self.phyid, self.virtual = loom, index, phyid, virtual
        self.threads = []   # bound threads (reference state)
        self.row = None
        self.ever_selected = False

    @property
    def name(self):
        if self.virtual:
            return "vCPU %d.*" % self.loom.gindex
        return " CPU %d.%d" % (self.loom.gindex, self.phyid)


class Loom:
    def __init__(self, name, skew=0):
        self.name, self.skew = name, skew
        self.cpus = []      # physical, in index order
        self.vcpu = Cpu(self, -1, -1, True)
        self.procs = []
        self.gindex = None

    @property
    def hostname(self):
        return self.name.split(".")[0]

    def cpu_by_index(self, i):
        if i == -1:
            return self.vcpu
        if 0 <= i < len(self.cpus):
            for c in self.cpus:
                if c.index == i:
                    return c
        return None


class Proc:
    def __init__(self, loom, pid, appid=1, rank=None, nranks=None):
        self.loom, self.pid, self.appid, self.rank, self.nranks = loom, pid, appid, rank, nranks
        self.threads = []
        # task model state
        self.types = {"nosv": {}, "nanos6": {}}
        self.tasks = {"nosv": {}, "nanos6": {}}


class Task:
    def __init__(self, tid_, typ, flags):
        self.id, self.type, self.flags = tid_, typ, flags  # flags: set of 'parallel','resurrect','pause','relax'
        self.bodies = {}


class Body:
    def __init__(self, task, bid):
        self.task, self.id = task, bid
        self.state = "created"
        self.owner = None
        self.iteration = 0


class Thread:
    def __init__(self, proc, tid):
        self.proc, self.tid = proc, tid
        self.loom = proc.loom
        self.state = "U"
        self.cpu = None
        self.out_of_cpu = False
        self.row = None
        self.stream = tf.Stream(proc.loom.name, proc.pid, tid)
        self.chan = {}        # (model, chan) -> list (stack) or scalar/None (single)
        self.bstack = {"nosv": [], "nanos6": []}   # body stacks, top last
        self.marks = {}       # mark type -> list or scalar
        self.lastclock = None

    @property
    def active(self):
        return self.state in ("R", "C", "W")

    @property
    def running(self):
        return self.state == "R"


class World:
    """Static description + row assignment."""

    def __init__(self):
        self.looms = []
        self.models = []          # enabled model names besides ovni
        self.mark_types = {}      # type -> dict(title, stack(bool), labels{v:label})

    def add_loom(self, name, ncpus, phyids=None, skew=0):
        l = Loom(name, skew)
        phyids = phyids or list(range(ncpus))
        for i in range(ncpus):
            l.cpus.append(Cpu(l, i, phyids[i]))
        self.looms.append(l)
        return l

    def add_proc(self, loom, pid, appid=1, rank=None, nranks=None):
        p = Proc(loom, pid, appid, rank, nranks)
        loom.procs.append(p)
        return p

    def add_thread(self, proc, tid):
        t = Thread(proc, tid)
        proc.threads.append(t)
        return t

    @property
    def threads(self):
        return [t for l in self.looms for p in l.procs for t in p.threads]

    @property
    def procs(self):
        return [p for l in self.looms for p in l.procs]

    def assign_rows(self):
        """Documented ordering: looms by name, or by min rank when every loom
        has ranks; processes by rank or PID; threads by TID; CPUs by physical
        id with the virtual CPU last per loom."""
        def loom_has_rank(l):
            return any(p.rank is not None for p in l.procs)
        if all(loom_has_rank(l) for l in self.looms):
            # (equal minimum ranks: by name; equal ranks inside a loom: by PID -- the metadata decides, never the paths)
            looms = sorted(self.looms, key=lambda l: (min(p.rank for p in l.procs if p.rank is not None), l.name.encode()))
        else:
            looms = sorted(self.looms, key=lambda l: l.name.encode())
        trow = crow = 0
        self.thread_rows, self.cpu_rows = [], []
        for gi, l in enumerate(looms):
            l.gindex = gi
            if loom_has_rank(l):
                procs = sorted(l.procs, key=lambda p: (-1 if p.rank is None else p.rank, p.pid))  # None only in C15's partial-rank worlds, whose rows are not compared with this reference
            else:
                procs = sorted(l.procs, key=lambda p: p.pid)
            for p in procs:
                for t in sorted(p.threads, key=lambda t: t.tid):
                    trow += 1
                    t.row = trow
                    self.thread_rows.append(t)
            for c in sorted(l.cpus, key=lambda c: c.phyid):
                crow += 1
                c.row = crow
                self.cpu_rows.append(c)
            crow += 1
            l.vcpu.row = crow
            self.cpu_rows.append(l.vcpu)
        self.sorted_looms = looms

    def thread_row_names(self):
        return ["TH %d.%d" % (t.proc.appid, t.tid) for t in self.thread_rows]

    def cpu_row_names(self):
        return [c.name for c in self.cpu_rows]

    def default_meta(self):
        """Every thread carries everything (distribution variants are C15's)."""
        req = {m: CATALOGUE[m]["version"] for m in self.models}
        for t in self.threads:
            l = t.loom
            extra = {}
            if self.mark_types:
                extra["ovni"] = {"mark": {str(k): {"title": v["title"],
                                                   "chan_type": "stack" if v["stack"] else "single",
                                                   **({"labels": {str(a): b for a, b in sorted(v["labels"].items())}} if v["labels"] else {})}
                                          for k, v in sorted(self.mark_types.items())}}
            if "nosv" in self.models:
                extra["nosv"] = {"can_breakdown": True, "lib_version": "2.4.0"}
            treq = req
            if getattr(self, "require_split", None) and len(self.threads) >= 2:
                # a model is enabled when SOME stream requires it: every model keeps >= 1 requiring thread, chosen at random
                from .prng import Rng as _Rng
                treq = {}
                for m in sorted(req):
                    rr = _Rng(self.require_split).derive(m)
                    holders = set(rr.sample(range(len(self.threads)), rr.randint(1, max(1, len(self.threads) - 1))))
                    if self.threads.index(t) in holders:
                        treq[m] = req[m]
            t.stream.meta = tf.base_meta(l.name, t.proc.pid, t.tid, app_id=t.proc.appid, require=treq,
                                         cpus=[(c.index, c.phyid) for c in l.cpus],
                                         rank=t.proc.rank, nranks=t.proc.nranks, extra=extra)
            if getattr(self, "require_split", None) and len(self.threads) >= 2:
                # the base model is always on: a thread need not list it either, as long as somebody does
                rr = _Rng(self.require_split).derive("ovni")
                keep = rr.below(len(self.threads))
                if self.threads.index(t) != keep and rr.derive(str(self.threads.index(t))).chance(40):
                    del t.stream.meta["ovni"]["require"]["ovni"]

    def describe(self):
        return {"looms": [{"name": l.name, "skew": l.skew, "cpus": [(c.index, c.phyid) for c in l.cpus],
                           "procs": [{"pid": p.pid, "appid": p.appid, "rank": p.rank,
                                      "threads": [t.tid for t in p.threads]} for p in l.procs]}
                          for l in self.looms], "models": self.models}


class Expect:
    """Expected step functions: key -> list of (time, acceptable-values frozenset)."""

    def __init__(self):
        self.series = {}
        self.last = {}

    def set(self, key, t, vals):
        if self.last.get(key, frozenset([None])) == vals:
            return
        self.last[key] = vals
        self.series.setdefault(key, []).append((t, vals))


def single(v):
    return frozenset([v])


EMPTY = frozenset([None])


class Machine:
    """Dynamic reference model.  emit() appends the event to the thread's
    stream, applies it to the reference state and records expected values."""

    def __init__(self, world, lint=False, on_record=None):
        self.w = world
        self.lint = lint
        self.on_record = on_record   # optional callback(machine) after every recorded instant
        self.now = 0                 # global ns since first event
        self.expect = Expect()
        self.offgrammar = None       # time of the first step outside the task runtimes' grammar (C20)
        self.offgrammar_kind = None
        self.first_illegal = None    # (time, reason)
        self.dontcare = False
        self.ev_times = []
        self.nevents = 0
        self.states_seen = set()
        self.quantities = []         # (model, chan, type, mode, stack)
        for m in ["ovni"] + list(world.models):
            cat = CATALOGUE[m]
            stackch = {e["chan"] for e in cat["entries"] if e["action"] in ("PUSH", "POP")}
            for ch, ty in sorted(cat["chan_type"].items()):
                self.quantities.append((m, ch, ty, cat["track"][ch], ch in stackch))
        for t in world.threads:
            for (m, ch, ty, mode, st) in self.quantities:
                t.chan[(m, ch)] = [] if st else None
                if ch == "CH_IDLE":
                    t.chan[(m, ch)] = "Progressing"
            for k, v in world.mark_types.items():
                t.marks[k] = [] if v["stack"] else None
        self.table = {}
        for m in ["ovni"] + list(world.models):
            for e in CATALOGUE[m]["entries"]:
                self.table[e["mcv"]] = (m, e)

    # ------------------------------------------------------------- helpers
    def illegal(self, why):
        if self.first_illegal is None and not self.dontcare:
            self.first_illegal = (self.now, why)

    def mark_dontcare(self, why):
        if self.first_illegal is None and not self.dontcare:
            self.dontcare = (self.now, why)

    @property
    def decided(self):
        return self.first_illegal is not None or bool(self.dontcare)

    def _nrun(self, cpu):
        return [t for t in cpu.threads if t.state == "R"]

    def check_oversub(self, cpu):
        if not cpu.virtual and len(self._nrun(cpu)) > 1:
            self.illegal("oversubscribed physical cpu %s" % cpu.name)

    # ---------------------------------------------------------------- emit
    def emit(self, th, mcv, payload=b"", jumbo=None, dt=1, clock=None):
        """dt >= 0 advances global time before the event."""
        if self.nevents == 0:
            dt = 0          # Paraver time is relative to the first event
        self.now += dt
        c = clock if clock is not None else getattr(self.w, "base_clock", BASE_CLOCK) + self.now + th.loom.skew
        ev = tf.Ev(mcv, c, payload, jumbo)
        th.stream.events.append(ev)
        self.nevents += 1
        if not self.decided:
            self.ev_times.append(self.now)
        self.apply(th, mcv, payload, jumbo)
        if not self.decided:
            self.record()
        return ev

    # --------------------------------------------------------------- apply
    def apply(self, th, mcv, payload, jumbo):
        m = mcv[0]
        if m == "O":
            if th.out_of_cpu:
                self.illegal("ovni event while out of cpu")
            return self.apply_ovni(th, mcv, payload)
        model = MODEL_BY_CHAR.get(m)
        if model is None or model not in self.w.models:
            self.illegal("event of model not enabled: " + mcv)
            return
        pre = CATALOGUE[model]["precondition"]
        if pre == "active" and not th.active:
            self.illegal("%s while thread not active" % mcv)
        elif pre == "running" and not th.running:
            self.illegal("%s while thread not running" % mcv)
        if model == "nosv" and th.out_of_cpu:
            self.illegal("nosv event while out of cpu")
        if mcv[1] in ("T", "Y") and model in ("nosv", "nanos6"):
            return self.apply_task(th, model, mcv, payload, jumbo)
        ent = self.table.get(mcv)
        if ent is None:
            self.illegal("unknown event " + mcv)
            return
        self.apply_entry(th, ent[0], ent[1])

    def apply_entry(self, th, model, e):
        key = (model, e["chan"])
        act = e["action"]
        if act == "IGN":
            return
        if act == "SET":
            if th.chan[key] == e["label"]:
                # writing the same value twice: emulator refuses duplicates on
                # single channels; the statement does not cover it
                self.mark_dontcare("repeated set")
            th.chan[key] = e["label"]
            return
        if act == "UNSET":
            if th.chan[key] is None:
                self.illegal("unset of empty channel")
            th.chan[key] = None
            return
        if act == "PUSH":
            self.push(th, model, e["chan"], e["label"])
            if e["mcv"] == "KCO":
                th.out_of_cpu = True
        elif act == "POP":
            self.pop(th, model, e["chan"], e["label"])
            if e["mcv"] == "KCI":
                th.out_of_cpu = False

    def push(self, th, model, chan, label):
        st = th.chan[(model, chan)]
        if len(st) >= STACK_LIMIT:
            self.illegal("stack overflow")
            return
        if st and st[-1] == label:
            self.mark_dontcare("immediate re-entry of " + label)
        st.append(label)

    def pop(self, th, model, chan, label):
        st = th.chan[(model, chan)]
        if not st:
            self.illegal("pop on empty stack")
            return
        if st[-1] != label:
            self.illegal("pop %s does not match top %s" % (label, st[-1]))
        st.pop()
        if (model in TASK_BODY_LABEL and st and st[-1] == TASK_BODY_LABEL[model] and th.bstack[model]
                and th.bstack[model][-1].state == "paused" and self.offgrammar is None):
            self.offgrammar = self.now   # region closed over a body that is still paused
            self.offgrammar_kind = "pop-over-paused"

    # ---------------------------------------------------------------- ovni
    def apply_ovni(self, th, mcv, payload):
        c, v = mcv[1], mcv[2]
        if c == "H":
            return self.apply_thread(th, v, payload)
        if c == "A":
            return self.apply_affinity(th, v, payload)
        if c == "F":
            if v == "[":
                if th.chan[("ovni", "CH_FLUSH")] is not None:
                    self.illegal("nested flush")
                th.chan[("ovni", "CH_FLUSH")] = "Flushing"
            elif v == "]":
                if th.chan[("ovni", "CH_FLUSH")] is None:
                    self.illegal("flush end without begin")
                th.chan[("ovni", "CH_FLUSH")] = None
            else:
                self.illegal("unknown flush event")
            return
        if c in ("U", "B"):
            return
        if c == "M":
            return self.apply_mark(th, v, payload)
        self.illegal("unknown ovni category")

    def apply_thread(self, th, v, payload):
        s = th.state
        if v == "x":
            if s == "D":
                self.mark_dontcare("execute on dead thread")
            elif s != "U":
                self.illegal("execute from state " + s)
            if len(payload) < 4:
                self.illegal("OHx without cpu")
                return
            idx = struct.unpack_from("<i", payload)[0]
            cpu = th.loom.cpu_by_index(idx)
            if cpu is None:
                self.illegal("OHx on unknown cpu")
                return
            if th.cpu is not None:
                th.cpu.threads.remove(th)
            th.cpu = cpu
            th.state = "R"
            cpu.threads.append(th)
            self.check_oversub(cpu)
            return
        legal = {"c": ("R",), "p": ("R", "C"), "w": ("P",), "r": ("P", "W"), "e": ("R", "C")}
        target = {"c": "C", "p": "P", "w": "W", "r": "R", "e": "D"}
        if v not in legal:
            if v == "C":
                return
            self.illegal("unknown thread event")
            return
        if s not in legal[v]:
            self.illegal("OH%s from state %s" % (v, s))
            if th.cpu is None:
                return
        th.state = target[v]
        if v == "e":
            if th.cpu is not None:
                th.cpu.threads.remove(th)
                th.cpu = None
        elif th.cpu is not None:
            self.check_oversub(th.cpu)

    def apply_affinity(self, th, v, payload):
        if v == "s":
            if len(payload) != 4:
                self.illegal("OAs bad payload")
                return
            if th.cpu is None:
                self.illegal("OAs without cpu")
                return
            if not th.active:
                self.mark_dontcare("OAs on inactive thread")
            idx = struct.unpack_from("<i", payload)[0]
            target = th
        elif v == "r":
            if len(payload) != 8:
                self.illegal("OAr bad payload")
                return
            idx, tid = struct.unpack_from("<ii", payload)
            target = None
            for t in th.proc.threads:
                if t.tid == tid:
                    target = t
            if target is None:
                for p in th.loom.procs:
                    for t in p.threads:
                        if t.tid == tid and target is None:
                            target = t
            if target is None:
                self.illegal("OAr unknown thread")
                return
            if target.state in ("U", "D") or target.cpu is None:
                self.illegal("OAr on thread in state " + target.state)
                return
        else:
            self.illegal("unknown affinity event")
            return
        cpu = th.loom.cpu_by_index(idx)
        if cpu is None:
            self.illegal("affinity to unknown cpu")
            return
        # (a remote "move" to the CPU the thread is already on changes nothing and is legal like its local
        # counterpart OAs; until finding F24 was repaired the emulator refused it and this was a don't-care)
        target.cpu.threads.remove(target)
        target.cpu = cpu
        cpu.threads.append(target)
        self.check_oversub(cpu)

    def apply_mark(self, th, v, payload):
        if len(payload) != 12:
            self.illegal("mark bad payload")
            return
        val, ty = struct.unpack("<qi", payload)
        mt = self.w.mark_types.get(ty)
        if mt is None:
            self.illegal("undefined mark type")
            return
        if val == 0:
            self.illegal("mark value 0")
            return
        if v == "=":
            if mt["stack"]:
                self.illegal("set on stack mark")
                return
            th.marks[ty] = val
        elif v == "[":
            if not mt["stack"]:
                self.illegal("push on single mark")
                return
            if len(th.marks[ty]) >= STACK_LIMIT:
                self.illegal("mark stack overflow")
                return
            th.marks[ty].append(val)
        elif v == "]":
            if not mt["stack"]:
                self.illegal("pop on single mark")
                return
            if not th.marks[ty]:
                self.illegal("mark pop on empty")
                return
            if th.marks[ty][-1] != val:
                self.illegal("mark pop mismatch")
            th.marks[ty].pop()
        else:
            self.illegal("unknown mark event")

    # --------------------------------------------------------------- tasks
    def apply_task(self, th, model, mcv, payload, jumbo):
        p = th.proc
        c, v = mcv[1], mcv[2]
        if c == "Y":
            if v != "c" or jumbo is None or len(jumbo) < 5:
                self.illegal("bad type event")
                return
            typeid = struct.unpack_from("<I", jumbo)[0]
            label = jumbo[4:].split(b"\0")[0].decode("latin-1")
            if typeid in p.types[model] or typeid == 0:
                self.illegal("task type redefined/zero")
                return
            if label == "":
                label = "(unlabeled task type %d)" % typeid
            p.types[model][typeid] = label
            return
        if v in ("c", "C"):
            if model == "nanos6" and v == "C":
                return   # legacy, ignored with a warning
            if len(payload) != 8:
                if len(payload) < 8 or model == "nanos6":
                    self.illegal("bad create payload")
                    return
            taskid, typeid = struct.unpack_from("<II", payload)
            if taskid in p.tasks[model]:
                self.illegal("task id reused")
                return
            if typeid not in p.types[model]:
                self.illegal("unknown task type")
                return
            if model == "nosv":
                flags = {"parallel"} if v == "C" else {"resurrect", "pause"}
            else:
                flags = {"pause", "relax"}
            p.tasks[model][taskid] = Task(taskid, typeid, flags)
            return
        if v not in ("x", "e", "p", "r"):
            self.illegal("unknown task event")
            return
        need = 8 if model == "nosv" else 4
        if len(payload) < need:
            self.illegal("short task payload")
            return
        taskid = struct.unpack_from("<I", payload)[0]
        task = p.tasks[model].get(taskid)
        if task is None:
            self.illegal("unknown task")
            return
        if model == "nosv":
            bid = struct.unpack_from("<I", payload, 4)[0]
            if "parallel" in task.flags:
                if bid == 0:
                    self.illegal("parallel body id 0")
                    return
            else:
                if bid != 0:
                    self.illegal("non-parallel body id != 0")
                    return
                bid = 1
        else:
            bid = 1
        stack = th.bstack[model]
        top = stack[-1] if stack else None
        body = task.bodies.get(bid)
        ssch = "CH_SUBSYSTEM"
        if v == "x":
            if body is None:
                if "parallel" not in task.flags and task.bodies:
                    self.illegal("second body of non-parallel task")
                    return
                body = Body(task, bid)
                task.bodies[bid] = body
            if body.state == "dead":
                if "resurrect" not in task.flags:
                    self.illegal("re-run of non-resurrectable task")
                    return
                body.state = "created"
                body.iteration += 1
            if body.state != "created" or body.owner is not None:
                self.illegal("execute of body in state " + body.state)
                return
            if top is not None and top.state == "running" and "relax" not in top.task.flags:
                self.illegal("nest over running body")
                return
            body.state = "running"
            body.owner = th
            stack.append(body)
            ss = th.chan[(model, ssch)]
            if ss and ss[-1] == TASK_BODY_LABEL[model] and len(ss) < STACK_LIMIT:
                # nesting a body right over a paused one (or a running one, with relaxed nesting) is a legal task
                # history in both models (for Nanos6 a don't-care until finding F27 was repaired)
                ss.append(TASK_BODY_LABEL[model])
            else:
                self.push(th, model, ssch, TASK_BODY_LABEL[model])
            return
        if body is None:
            self.illegal("event on unknown body")
            return
        if v == "p" and "pause" not in task.flags:
            self.illegal("pause of task that cannot pause")
            return
        want = {"p": "running", "r": "paused", "e": "running"}[v]
        if body.state != want or body.owner is not th or top is not body:
            self.illegal("task %s on body in state %s (owner/top mismatch)" % (v, body.state))
            # lenient continuation (only matters for what is generated next):
            # a pause/resume of a body of this stack that is not on top takes effect
            if body.state == want and body.owner is th and v in ("p", "r"):
                body.state = "paused" if v == "p" else "running"
            return
        if v == "p":
            body.state = "paused"
            ss = th.chan[(model, ssch)]
            if ss and ss[-1] == TASK_BODY_LABEL[model] and self.offgrammar is None:
                self.offgrammar = self.now   # paused with no API/blocking region above the body
                self.offgrammar_kind = "pause-without-region"
        elif v == "r":
            body.state = "running"
        else:
            body.state = "dead"
            body.owner = None
            stack.pop()
            self.pop(th, model, ssch, TASK_BODY_LABEL[model])

    def running_body(self, th, model):
        st = th.bstack[model]
        if st and st[-1].state == "running":
            return st[-1]
        return None

    # ------------------------------------------------------------ expected
    def raw(self, th, model, chan):
        """Raw published value of a thread quantity (label or int or None)."""
        if chan in ("CH_TASKID", "CH_TYPE", "CH_BODYID", "CH_APPID", "CH_RANK"):
            b = self.running_body(th, model)
            if b is None:
                return None
            if chan == "CH_TASKID":
                return b.task.id
            if chan == "CH_TYPE":
                return th.proc.types[model][b.task.type]
            if chan == "CH_BODYID":
                return b.id
            if chan == "CH_APPID":
                return th.proc.appid
            if chan == "CH_RANK":
                return None if th.proc.rank is None else th.proc.rank + 1
        v = th.chan[(model, chan)]
        if isinstance(v, list):
            return v[-1] if v else None
        return v

    @staticmethod
    def visible(th, mode):
        return mode == "always" or (mode == "running" and th.running) or (mode == "active" and th.active)

    def record(self):
        t = self.now
        ex = self.expect
        w = self.w
        for th in w.threads:
            r = th.row
            ex.set(("thread", r, T_TH_STATE), t, single(STATE_LABEL.get(th.state)))
            ex.set(("thread", r, T_TID), t, single(th.tid if th.active else None))
            ex.set(("thread", r, T_TH_CPU), t, single(th.cpu.name if th.cpu else None))
            for (m, ch, ty, mode, st) in self.quantities:
                v = self.raw(th, m, ch) if self.visible(th, mode) else None
                ex.set(("thread", r, ty), t, single(v))
            for k, mt in w.mark_types.items():
                mv = th.marks[k]
                mv = (mv[-1] if mv else None) if mt["stack"] else mv
                ex.set(("thread", r, 100 + k), t, single(mv if th.active else None))
        for l in w.looms:
            for cpu in l.cpus + [l.vcpu]:
                r = cpu.row
                run = self._nrun(cpu)
                ex.set(("cpu", r, T_CPU_NRUN), t, single(len(run) or None))
                u = run[0] if len(run) == 1 else None
                if u is not None:
                    cpu.ever_selected = True
                ex.set(("cpu", r, T_TID), t, single(u.tid if u else None))
                ex.set(("cpu", r, T_CPU_PID), t, single(u.proc.pid if u else None))
                for (m, ch, ty, mode, st) in self.quantities:
                    if u is not None:
                        vals = single(self.raw(u, m, ch))
                    elif ch == "CH_IDLE":
                        vals = frozenset([None, "Resting"])
                    else:
                        vals = EMPTY
                    ex.set(("cpu", r, ty), t, vals)
                for k, mt in w.mark_types.items():
                    if u is not None:
                        mv = u.marks[k]
                        mv = (mv[-1] if mv else None) if mt["stack"] else mv
                    else:
                        mv = None
                    ex.set(("cpu", r, 100 + k), t, single(mv))
        if self.on_record is not None:
            self.on_record(self)
        # abstract state for coverage accounting
        for l in w.looms:
            for cpu in l.cpus + [l.vcpu]:
                self.states_seen.add((cpu.virtual, min(len(self._nrun(cpu)), 3), min(len(cpu.threads), 3)))

    # ------------------------------------------------------------- verdict
    def end_verdict(self):
        """Returns ('accept'|'reject'|'dontcare', reason)."""
        if self.dontcare and (self.first_illegal is None or self.dontcare[0] <= self.first_illegal[0]):
            return "dontcare", self.dontcare[1]
        if self.first_illegal is not None:
            return "reject", self.first_illegal[1]
        for t in self.w.threads:
            if t.state != "D":
                return "reject", "thread %d not dead at end (state %s)" % (t.tid, t.state)
        if self.lint:
            for t in self.w.threads:
                for m in self.w.models:
                    for ch in CATALOGUE[m]["lint"]:
                        if t.chan[(m, ch)]:
                            return "reject", "lint: open regions at end in %s" % m
        return "accept", ""


def name_key(s):
    """Identity of a row/CPU name independent of its exact formatting: the
    integers in it, plus a marker for the virtual CPU."""
    import re
    if s is None:
        return None
    return tuple(re.findall(r"\d+", s)) + (("v",) if ("*" in s or s.strip().lower().startswith("v")) else ())


def compare_timelines(machine, pvts, keys_filter=None, upto=None, accepted=True):
    """Compare expected step functions with the PRV files.
    pvts: {'thread': Pvt, 'cpu': Pvt}.  Returns list of mismatch strings."""
    ex = machine.expect
    errs = []
    evtimes = set(machine.ev_times)
    limit = upto
    for kind in ("thread", "cpu"):
        pvt = pvts[kind]
        # every PRV line must be at an event time
        for (t, row, ty, v) in pvt.prv.lines:
            if limit is not None and t >= limit:
                continue
            if t not in evtimes:
                errs.append("%s.prv line at time %d which is not an event time (row %d type %d)" % (kind, t, row, ty))
                break
        keys = set(k for k in ex.series if k[0] == kind)
        known_types = {1, 2, 3, 4, 6} | {q[2] for q in machine.quantities} | {100 + k for k in machine.w.mark_types}
        # types the reference knows nothing about (e.g. a new model's timeline) are not its business
        keys |= set((kind, row, ty) for (row, ty) in pvt.steps if ty in known_types)
        for key in sorted(keys):
            _, row, ty = key
            if keys_filter is not None and not keys_filter(kind, ty):
                continue
            if ty in FINISH_LABEL_TYPES and not accepted:
                continue
            exp = ex.series.get(key, [])
            act = pvt.steps.get((row, ty), [])
            times = sorted(set([t for t, _ in exp] + [t for t, _ in act]))
            ei = ai = 0
            cur_e = EMPTY
            cur_a = 0
            for t in times:
                if limit is not None and t >= limit:
                    break
                while ei < len(exp) and exp[ei][0] <= t:
                    cur_e = exp[ei][1]
                    ei += 1
                while ai < len(act) and act[ai][0] <= t:
                    cur_a = act[ai][1]
                    ai += 1
                a = cur_a
                if a == 0:
                    a = None
                elif ty in LABEL_TYPES:
                    lab = pvt.pcf.label(ty, a)
                    a = lab if lab is not None else "<unlabeled %d>" % a
                if ty == T_TH_CPU and kind == "thread":
                    ok = name_key(a) in {name_key(x) for x in cur_e} if a is not None else (None in cur_e)
                else:
                    ok = a in cur_e
                if not ok:
                    errs.append("%s row %d type %d at t=%d: emulator shows %r, reference expects %s"
                                % (kind, row, ty, t, a, sorted(map(repr, cur_e))))
                    break
    return errs
