"""SplitMix64-based PRNG: one integer decides everything.

No use of Python's `random` or of hash(); streams are derived by name with
FNV-1a so that PYTHONHASHSEED cannot leak in.
"""
M64 = (1 << 64) - 1


def _mix(z):
    z = (z + 0x9E3779B97F4A7C15) & M64
    z = ((z ^ (z >> 30)) * 0xBF58476D1CE4E5B9) & M64
    z = ((z ^ (z >> 27)) * 0x94D049BB133111EB) & M64
    return z ^ (z >> 31)


def fnv1a(s):
    h = 0xCBF29CE484222325
    for b in s.encode():
        h = ((h ^ b) * 0x100000001B3) & M64
    return h


def mix(*parts):
    """Combine integers/strings into one 64-bit seed."""
    h = 0x243F6A8885A308D3
    for p in parts:
        if isinstance(p, str):
            p = fnv1a(p)
        h = _mix(h ^ (p & M64))
    return h


class Rng:
    __slots__ = ("s", "draws")

    def __init__(self, seed):
        self.s = seed & M64
        self.draws = 0

    def derive(self, name):
        return Rng(mix(self.s, name))

    def u64(self):
        self.s = (self.s + 0x9E3779B97F4A7C15) & M64
        z = self.s
        z = ((z ^ (z >> 30)) * 0xBF58476D1CE4E5B9) & M64
        z = ((z ^ (z >> 27)) * 0x94D049BB133111EB) & M64
        self.draws += 1
        return z ^ (z >> 31)

    def below(self, n):
        """uniform in [0, n)"""
        if n <= 0:
            raise ValueError("below(%r)" % (n,))
        return self.u64() % n

    def randint(self, a, b):
        """uniform in [a, b]"""
        return a + self.below(b - a + 1)

    def chance(self, num, den=100):
        return self.below(den) < num

    def choice(self, seq):
        return seq[self.below(len(seq))]

    def weighted(self, pairs):
        """pairs: list of (item, weight)"""
        tot = sum(w for _, w in pairs)
        x = self.below(tot)
        for it, w in pairs:
            if x < w:
                return it
            x -= w
        return pairs[-1][0]

    def shuffle(self, lst):
        for i in range(len(lst) - 1, 0, -1):
            j = self.below(i + 1)
            lst[i], lst[j] = lst[j], lst[i]
        return lst

    def sample(self, seq, k):
        l = list(seq)
        self.shuffle(l)
        return l[:k]

    def bytes(self, n):
        out = bytearray()
        while len(out) < n:
            out += self.u64().to_bytes(8, "little")
        return bytes(out[:n])
