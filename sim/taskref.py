"""Reference DFS over task/body operation sequences (auxiliary to C07, DESIGN App. A.4).
Produces the same character stream as aux/task_harness.c when the module agrees with the reference."""
PARALLEL, RESURRECT, PAUSE, RELAX = 1, 2, 4, 8


class State:
    __slots__ = ("bodies", "stacks")

    def __init__(self):
        self.bodies = {}            # (task, bid) -> [state, owner]
        self.stacks = ([], [])      # lists of (task, bid), top last

    def copy(self):
        s = State()
        s.bodies = {k: list(v) for k, v in self.bodies.items()}
        s.stacks = (list(self.stacks[0]), list(self.stacks[1]))
        return s


def apply(st, flags, sym):
    """Returns True on success (state updated in place)."""
    op, task, body, stack = sym & 3, (sym >> 2) & 1, (sym >> 3) & 1, (sym >> 4) & 1
    fl = flags[task]
    key = (task, body)
    b = st.bodies.get(key)
    stk = st.stacks[stack]
    top = stk[-1] if stk else None
    if op == 0:     # execute
        if b is None:
            if not (fl & PARALLEL) and any(k[0] == task for k in st.bodies):
                return False
            b = ["created", None]
            st.bodies[key] = b      # the body exists from now on, even if the execution is refused below
        if b[0] == "dead":
            if not (fl & RESURRECT):
                return False
            b[0] = "created"
        if b[0] != "created" or b[1] is not None:
            return False
        if top is not None and st.bodies[top][0] == "running" and not (flags[top[0]] & RELAX):
            return False
        b[0], b[1] = "running", stack
        stk.append(key)
        return True
    if b is None:
        return False
    if op == 1:     # pause
        if not (fl & PAUSE) or b[0] != "running" or b[1] != stack or top != key:
            return False
        b[0] = "paused"
        return True
    if op == 2:     # resume
        if b[0] != "paused" or b[1] != stack or top != key:
            return False
        b[0] = "running"
        return True
    if b[0] != "running" or b[1] != stack or top != key:
        return False
    b[0], b[1] = "dead", None
    stk.pop()
    return True


def dfs_stream(flags, maxdepth):
    out = []
    paths = []

    def rec(st, depth, path):
        for sym in range(32):
            s2 = st.copy()
            ok = apply(s2, flags, sym)
            out.append("1" if ok else "0")
            paths.append(path + (sym,))
            if ok and depth + 1 < maxdepth:
                rec(s2, depth + 1, path + (sym,))
    rec(State(), 0, ())
    return "".join(out), paths


def describe(path):
    names = "xpre"
    return ", ".join("%s(task %d, body %d, stack %d)" % (names[s & 3], 1 + ((s >> 2) & 1), 1 + ((s >> 3) & 1), (s >> 4) & 1) for s in path)
