"""Independent encoder/decoder of the ovni trace format (doc/user/runtime/trace_spec.md).

Nothing here is derived from src/rt/ovni.c or src/emu/stream.c.
"""
import json
import os
import struct

HEADER = b"ovni" + struct.pack("<I", 1)
JUMBO = 0x10


class Ev:
    """One event.  payload: bytes (0 or 2..16) for normal events; for jumbo
    events `jumbo` holds the data and payload is ignored."""
    __slots__ = ("mcv", "clock", "payload", "jumbo", "flags_hi")

    def __init__(self, mcv, clock, payload=b"", jumbo=None, flags_hi=0):
        self.mcv = mcv
        self.clock = clock
        self.payload = payload
        self.jumbo = jumbo
        self.flags_hi = flags_hi

    def encode(self):
        return enc(self.mcv, self.clock, self.payload, self.jumbo, self.flags_hi)

    def key(self):
        return (self.mcv, self.clock, bytes(self.payload), self.jumbo)

    def __repr__(self):
        if self.jumbo is not None:
            return "Ev(%s,%d,jumbo[%d])" % (self.mcv, self.clock, len(self.jumbo))
        return "Ev(%s,%d,%s)" % (self.mcv, self.clock, self.payload.hex())


class HoleEv(Ev):
    """A jumbo event whose data is `hole` zero bytes, never materialised in memory:
    write_trace leaves a hole in the (sparse) file."""
    __slots__ = ("hole",)

    def __init__(self, mcv, clock, hole):
        Ev.__init__(self, mcv, clock, b"", b"")
        self.hole = hole

    def encode(self):
        head = enc(self.mcv, self.clock, b"", b"")
        return head[:12] + struct.pack("<I", self.hole)

    def __repr__(self):
        return "Ev(%s,%d,jumbo[%d zero bytes])" % (self.mcv, self.clock, self.hole)


def enc(mcv, clock, payload=b"", jumbo=None, flags_hi=0):
    m = mcv.encode("latin-1") if isinstance(mcv, str) else bytes(mcv)
    assert len(m) == 3
    if jumbo is not None:
        flags = JUMBO | 0x3 | flags_hi
        return bytes([flags]) + m + struct.pack("<Q", clock & (2**64 - 1)) + \
            struct.pack("<I", len(jumbo)) + jumbo
    n = len(payload)
    assert n == 0 or 2 <= n <= 16, n
    flags = (0 if n == 0 else n - 1) | flags_hi
    return bytes([flags]) + m + struct.pack("<Q", clock & (2**64 - 1)) + payload


def i32(*v):
    return struct.pack("<%di" % len(v), *v)


def u32(*v):
    return struct.pack("<%dI" % len(v), *v)


def i64(*v):
    return struct.pack("<%dq" % len(v), *v)


def u64(*v):
    return struct.pack("<%dQ" % len(v), *v)


class DecodeError(Exception):
    pass


def decode(buf, header=True):
    """Decode a whole stream; events must tile the buffer exactly.
    Returns list of (offset, Ev)."""
    off = 0
    if header:
        if len(buf) < 8:
            raise DecodeError("short header (%d bytes)" % len(buf))
        if buf[:4] != b"ovni":
            raise DecodeError("bad magic %r" % buf[:4])
        if struct.unpack_from("<I", buf, 4)[0] != 1:
            raise DecodeError("bad version")
        off = 8
    out = []
    n = len(buf)
    while off < n:
        if off + 12 > n:
            raise DecodeError("truncated event header at %d" % off)
        flags = buf[off]
        mcv = buf[off + 1:off + 4].decode("latin-1")
        clock = struct.unpack_from("<Q", buf, off + 4)[0]
        sz = flags & 0x0F
        psz = 0 if sz == 0 else sz + 1
        if flags & JUMBO:
            if psz != 4:
                raise DecodeError("jumbo with payload size %d at %d" % (psz, off))
            if off + 16 > n:
                raise DecodeError("truncated jumbo size at %d" % off)
            jsz = struct.unpack_from("<I", buf, off + 12)[0]
            if off + 16 + jsz > n:
                raise DecodeError("truncated jumbo data at %d" % off)
            ev = Ev(mcv, clock, b"", bytes(buf[off + 16:off + 16 + jsz]), flags & 0xE0)
            out.append((off, ev))
            off += 16 + jsz
        else:
            if off + 12 + psz > n:
                raise DecodeError("truncated payload at %d" % off)
            ev = Ev(mcv, clock, bytes(buf[off + 12:off + 12 + psz]), None, flags & 0xE0)
            out.append((off, ev))
            off += 12 + psz
    return out


class Stream:
    """A thread stream of the simulated machine."""

    def __init__(self, loom, pid, tid, meta=None):
        self.loom = loom
        self.pid = pid
        self.tid = tid
        self.meta = meta if meta is not None else {}
        self.events = []      # list of Ev
        self.raw = None       # optional bytes overriding encoded events (E3)
        self.rawjson = None   # optional bytes overriding the json (E3)

    @property
    def relpath(self):
        return "loom.%s/proc.%d/thread.%d" % (self.loom, self.pid, self.tid)

    def obs_bytes(self):
        if self.raw is not None:
            return self.raw
        return HEADER + b"".join(e.encode() for e in self.events)

    def json_bytes(self):
        if self.rawjson is not None:
            return self.rawjson
        return json.dumps(self.meta, indent=1).encode()


def base_meta(loom, pid, tid, app_id=1, require=None, cpus=None, rank=None,
              nranks=None, finished=True, extra=None):
    ovni = {
        "lib": {"version": "1.11.0", "commit": "verif"},
        "part": "thread",
        "tid": tid,
        "pid": pid,
        "loom": loom,
    }
    if app_id is not None:
        ovni["app_id"] = app_id
    req = {"ovni": "1.1.0"}
    if require:
        req.update(require)
    ovni["require"] = req
    if cpus is not None:
        ovni["loom_cpus"] = [{"index": i, "phyid": p} for (i, p) in cpus]
    if rank is not None:
        ovni["rank"] = rank
        ovni["nranks"] = nranks
    if finished:
        ovni["finished"] = 1
    meta = {"version": 3, "ovni": ovni}
    if extra:
        for k, v in extra.items():
            if k == "ovni":
                ovni.update(v)
            else:
                meta[k] = v
    return meta


FOREIGN_META = {"version": 3, "ovni": {"part": "monitor", "finished": 1}}


def foreign_paths(rng, streams):
    """Relative paths for 1-2 event-less streams that belong to no thread
    (ovni.part other than "thread": tolerated with a warning), placed so that
    they sort before, between and after the thread streams."""
    rels = sorted(s.relpath for s in streams)
    cands = ["aux.0", "loom.0-monitor", "zz.monitor", rels[0].rsplit("/", 1)[0] + "/monitor.0",
             rels[-1].rsplit("/", 1)[0] + "/thread.0.mon", rels[0].split("/")[0] + "/monitor",
             rels[len(rels) // 2] + ".aux", "loom." + chr(1 + max(ord(r[5]) for r in rels) % 126) + "mon/proc.0/thread.0"]
    cands = [c for c in dict.fromkeys(cands) if c not in rels]
    return rng.sample(cands, min(len(cands), rng.randint(1, 2)))


def write_trace(root, streams, order=None, extra_files=None, foreign=None, links=None):
    """Materialise streams under root.  `order` is a list of indexes into
    streams giving the creation order (tmpfs lists directories in reverse
    creation order, so this decides the nftw order).  Within a stream dir the
    order of stream.json/stream.obs creation follows order_files (default
    obs first)."""
    os.makedirs(root, exist_ok=True)
    idx = list(range(len(streams))) if order is None else list(order)
    later = []
    for k, rel in enumerate(foreign or ()):
        if (len(idx) + k) % 2:
            later.append(rel)
            continue
        _write_foreign(root, rel)
    for key, target in (links or {}).items():
        # root/<key> is a symbolic link to a directory elsewhere (possibly on another file system)
        os.makedirs(os.path.join(target, key), exist_ok=True)
        os.makedirs(os.path.dirname(os.path.join(root, key)) or root, exist_ok=True)
        if not os.path.lexists(os.path.join(root, key)):
            os.symlink(os.path.join(target, key), os.path.join(root, key))
    for i in idx:
        s = streams[i]
        d = os.path.join(root, s.relpath)
        os.makedirs(d, exist_ok=True)
        with open(os.path.join(d, "stream.obs"), "wb") as f:
            if s.raw is None and any(isinstance(e, HoleEv) for e in s.events):
                f.write(HEADER)
                for e in s.events:
                    f.write(e.encode())
                    if isinstance(e, HoleEv):
                        f.seek(e.hole, 1)
                f.truncate(f.tell())
            else:
                f.write(s.obs_bytes())
        jb = s.json_bytes()
        if jb is not None:
            with open(os.path.join(d, "stream.json"), "wb") as f:
                f.write(jb)
    for rel in later:
        _write_foreign(root, rel)
    for name, data in (extra_files or {}).items():
        with open(os.path.join(root, name), "wb") as f:
            f.write(data)


def _write_foreign(root, rel):
    d = os.path.join(root, rel)
    os.makedirs(d, exist_ok=True)
    with open(os.path.join(d, "stream.obs"), "wb") as f:
        f.write(HEADER)
    with open(os.path.join(d, "stream.json"), "wb") as f:
        f.write(json.dumps(FOREIGN_META, indent=1).encode())


def observed_order(root):
    """Stream directories in the order a depth-first getdents walk sees them."""
    out = []

    def walk(d, rel):
        try:
            names = os.listdir(d)
        except NotADirectoryError:
            return
        for n in names:
            p = os.path.join(d, n)
            if os.path.isdir(p):
                walk(p, rel + [n])
            elif n == "stream.json":
                out.append("/".join(rel))
    walk(root, [])
    return out
