"""Batch runner, violation gate, shrinking, replay files, evidence (DESIGN §3.3, §3.4)."""
import hashlib
import importlib
import json
import multiprocessing as mp
import os
import shutil
import signal
import subprocess
import sys
import time
import traceback

from . import build as buildmod
from .prng import Rng, mix

VERIF = buildmod.VERIF
OUTDIR = buildmod.OUTDIR
SHM = "/dev/shm"
TOOL_TIMEOUT = 60.0


_LIBC = None


def die_with_parent():
    """preexec_fn for every tool and rtsim process: the kernel kills the child when the worker that started it goes
    away (wall cap, per-run alarm, a killed check) -- a tool that spins on a broken tree must not outlive its run."""
    global _LIBC
    try:
        if _LIBC is None:
            import ctypes
            _LIBC = ctypes.CDLL("libc.so.6", use_errno=True)
        _LIBC.prctl(1, 9, 0, 0, 0)      # PR_SET_PDEATHSIG, SIGKILL
    except Exception:
        pass


class Ctx:
    def __init__(self, bld, tier, workroot):
        self.build = bld
        self.tier = tier
        self.workroot = workroot
        self._n = 0

    def workdir(self):
        self._n += 1
        d = os.path.join(self.workroot, "w%d" % self._n)
        if os.path.exists(d):
            shutil.rmtree(d)
        os.makedirs(d)
        return d

    def cleanup(self, d):
        shutil.rmtree(d, ignore_errors=True)

    @staticmethod
    def spell(tdir, salt):
        """The same trace directory named differently on the command line (trailing
        slashes, relative, through '.' and '..'): -> (argument, cwd).  No statement
        depends on how the directory is spelled."""
        k = salt % 16
        parent, base = os.path.split(tdir)
        if k == 0:
            return tdir + "/", None
        if k == 1:
            return tdir + "//", None
        if k == 2:
            return base, parent
        if k == 3:
            return "./" + base + "/", parent
        if k == 4:
            return os.path.join("..", os.path.basename(parent), base), parent
        if k == 5:
            return os.path.join(parent, ".", base), None
        return tdir, None

    def run_tool(self, name, args, san=False, heapbuf=False, timeout=TOOL_TIMEOUT, cwd=None, stdin=None, shortio=None):
        """Returns (status, stdout, stderr).  status: int exit code, or
        'signal:<n>' or 'timeout'."""
        env = {"PATH": "/usr/bin:/bin", "OVNI_CONFIG_DIR": self.build.cfgdir,
               "ASAN_OPTIONS": "detect_leaks=0:abort_on_error=0:exitcode=77:allocator_may_return_null=1:max_allocation_size_mb=4096",
               "UBSAN_OPTIONS": "print_stacktrace=1:halt_on_error=1:exitcode=78"}
        if heapbuf:
            env["OVNI_VERIF_HEAPBUF"] = "1"
        if shortio is not None and not san:
            # seeded short pwrite(2) transfers (aux/shortio.c), plain builds only
            env["LD_PRELOAD"] = self.build.aux("shortio.so")
            env["OVNI_VERIF_SHORTIO"] = str(int(shortio))
        exe = self.build.tool(name, san=san)
        try:
            p = subprocess.run([exe] + list(args), env=env, cwd=cwd, stdin=subprocess.DEVNULL,
                               stdout=subprocess.PIPE, stderr=subprocess.PIPE, timeout=timeout, preexec_fn=die_with_parent)
        except subprocess.TimeoutExpired as e:
            return "timeout", (e.stdout or b""), (e.stderr or b"")
        rc = p.returncode
        if rc < 0:
            return "signal:%d" % (-rc), p.stdout, p.stderr
        return rc, p.stdout, p.stderr


def emu_verdict(status, stderr):
    """'accept' | 'reject' | 'crash:<what>'"""
    ok_line = b"emulation finished ok" in stderr
    if status == 0 and ok_line:
        return "accept"
    if status == 0 or ok_line:
        return "crash:inconsistent status=%s ok_line=%s" % (status, ok_line)
    if status == 1:
        return "reject"
    if isinstance(status, int) and status != 0:
        # die() -> abort() ends in SIGABRT, usage() -> exit 1, sanitizers 77/78
        return "crash:exit %d" % status
    return "crash:%s" % status


import re as _re
_WORK = _re.compile(r"/dev/shm/ovni-verif\.\d+/w\d+")


def result(ok=True, vclass=None, sig=None, detail="", **kw):
    r = {"ok": ok, "vclass": vclass, "sig": sig or vclass, "detail": detail,
         "sim_ns": 0, "faults": {}, "probes": {}, "ihash": "", "nontrivial": False,
         "states": [], "sample": None, "evals": 1, "det": None}
    r.update(kw)
    if r["det"] is None:
        # deterministic part of the report (tool stderr carries wall-clock rates)
        r["det"] = r["detail"].split("\n--- tool stderr", 1)[0]
    # scratch directories are numbered per process and per run
    r["det"] = _WORK.sub("<work>", r["det"])
    r["detail"] = _WORK.sub("<work>", r["detail"])
    return r


def ihash(obj):
    return hashlib.sha256(json.dumps(obj, sort_keys=True, default=str).encode()).hexdigest()[:16]


# --------------------------------------------------------------------- workers
_W = {}


def plain(text):
    """Printable ASCII only (details may quote bytes of a corrupted stream)."""
    return "".join(ch if (32 <= ord(ch) < 127 or ch in "\n\t") else ("\\x%02x" % ord(ch) if ord(ch) < 256 else "?") for ch in text)


def fix_environment():
    """Environment parameters every run shares, whatever the invoking shell had: the usual soft limit of 1024 open
    files (inherited by every tool and rtsim process)."""
    import resource
    soft, hard = resource.getrlimit(resource.RLIMIT_NOFILE)
    want = 1024 if hard == resource.RLIM_INFINITY else min(1024, hard)
    if soft != want:
        resource.setrlimit(resource.RLIMIT_NOFILE, (want, hard))


def _winit(modname, tier, seed, root):
    fix_environment()
    die_with_parent()        # a worker does not outlive the check that started it
    signal.signal(signal.SIGINT, signal.SIG_IGN)
    _W["mod"] = importlib.import_module(modname)
    _W["tier"] = tier
    _W["seed"] = seed
    bld = buildmod.Build(root)
    _W["ctx"] = Ctx(bld, tier, os.path.join(SHM, "ovni-verif.%d" % os.getpid()))
    os.makedirs(_W["ctx"].workroot, exist_ok=True)


def case_seed(root_seed, pid, idx):
    return mix(root_seed, pid, idx)


class RunTimeout(Exception):
    pass


def _alarm(*a):
    raise RunTimeout("a single simulated run exceeded %d s of wall clock (harness bug)" % RUN_ALARM)


RUN_ALARM = 120


def _wrun(idx):
    mod, ctx = _W["mod"], _W["ctx"]
    signal.signal(signal.SIGALRM, _alarm)
    signal.alarm(getattr(mod, "RUN_ALARM", RUN_ALARM))
    try:
        s = case_seed(_W["seed"], mod.ID, idx)
        case = mod.gen(Rng(s), _W["tier"], idx)
        r = mod.run(case, ctx)
        r["idx"] = idx
        r["case_seed"] = s
        signal.alarm(0)
        return r
    except Exception:
        signal.alarm(0)
        return {"idx": idx, "ok": False, "vclass": "harness-exception", "sig": "harness-exception",
                "detail": traceback.format_exc(), "infra": True, "sim_ns": 0, "faults": {}, "probes": {},
                "ihash": "", "nontrivial": False, "states": [], "sample": None, "evals": 0}


def _wcleanup(_):
    shutil.rmtree(_W["ctx"].workroot, ignore_errors=True)


# ------------------------------------------------------------------ shrinking
def shrink_case(mod, case, ctx, vclass, budget=400):
    """ddmin over the list case[mod.SHRINK_LIST] (when defined), then greedy
    passes over mod.shrink_candidates(case).  A candidate is accepted only if
    the same violation class persists."""
    tries = [0]
    # shrinking is best effort: bounded in re-executions and in wall time (the unshrunk case replays just as well)
    deadline = time.time() + float(os.environ.get("VERIF_SHRINK_SECONDS", "90" if getattr(ctx, "tier", "quick") == "quick" else "600"))

    def bad(cand):
        if tries[0] >= budget or time.time() > deadline:
            tries[0] = max(tries[0], budget)
            return False
        tries[0] += 1
        try:
            r = mod.run(cand, ctx)
        except Exception:
            return False
        return (not r["ok"]) and r["vclass"] == vclass

    key = getattr(mod, "SHRINK_LIST", None)
    if key and key in case:
        def with_items(items):
            c = dict(case)
            c[key] = items
            return c
        items = list(case[key])
        n = 2
        while len(items) >= 2 and tries[0] < budget:
            chunk = -(-len(items) // n)
            removed = False
            for i in range(n):
                cand = items[:i * chunk] + items[(i + 1) * chunk:]
                if len(cand) < len(items) and bad(with_items(cand)):
                    items = cand
                    n = max(n - 1, 2)
                    removed = True
                    break
            if not removed:
                if n >= len(items):
                    break
                n = min(len(items), n * 2)
        case = with_items(items)
    if hasattr(mod, "shrink_candidates"):
        improved = True
        while improved and tries[0] < budget:
            improved = False
            for cand in mod.shrink_candidates(case):
                if tries[0] >= budget:
                    break
                if bad(cand):
                    case = cand
                    improved = True
                    break
    return case, tries[0]


def list_chunks(n):
    """ddmin-style index ranges to try deleting from a list of length n:
    halves, quarters, ..., singles."""
    out = []
    size = n // 2
    while size >= 1:
        for a in range(0, n, size):
            out.append((a, min(n, a + size)))
        if size == 1:
            break
        size //= 2
    return out


# --------------------------------------------------------------- known findings
def load_known(pid):
    path = os.path.join(VERIF, "KNOWN_FINDINGS")
    known = []
    if not os.path.exists(path):
        return known
    for line in open(path):
        line = line.strip()
        if not line.startswith("known:"):
            continue
        parts = line.split(None, 3)
        if len(parts) < 3:
            continue
        kv = dict(p.split("=", 1) for p in parts[1:3] if "=" in p)
        if kv.get("property") == pid and "sig" in kv:
            known.append((kv["sig"], parts[3] if len(parts) > 3 else ""))
    return known


def match_known(known, sig):
    for k, desc in known:
        if k.endswith("*"):
            if sig.startswith(k[:-1]):
                return (k, desc)
        elif k == sig:
            return (k, desc)
    return None


# ----------------------------------------------------------------------- batch
def write_replay(pid, seed, n, case, r, tier):
    os.makedirs(os.path.join(OUTDIR, "replays"), exist_ok=True)
    path = os.path.join(OUTDIR, "replays", "%s-%d-%d.json" % (pid, seed, n))
    with open(path, "w") as f:
        json.dump({"property": pid, "seed": seed, "tier": tier, "vclass": r["vclass"], "sig": r["sig"],
                   "detail": r["detail"][:4000], "case": case}, f, indent=1, sort_keys=True)
    return path


def replay_file(path):
    """Re-execute a replay file in this (fresh) process. Exit code semantics as checks."""
    fix_environment()
    rp = json.load(open(path))
    mod = importlib.import_module("sim.checks." + rp["property"].lower())
    bld = buildmod.ensure()
    ctx = Ctx(bld, rp.get("tier", "quick"), os.path.join(SHM, "ovni-verif.%d" % os.getpid()))
    os.makedirs(ctx.workroot, exist_ok=True)
    try:
        r = mod.run(rp["case"], ctx)
    finally:
        shutil.rmtree(ctx.workroot, ignore_errors=True)
    if not r["ok"]:
        print("REPRODUCED class=%s sig=%s" % (r["vclass"], r["sig"]))
        print(plain(r["detail"][:3000]))
        print("VIOLATION property=%s replay=%s" % (rp["property"], path))
        return 1 if r["vclass"] == rp["vclass"] else 3
    print("not reproduced: property held on replay")
    return 0


def run_check(pid, tier, seed, nworkers=None, max_violations=4):
    t0 = time.time()
    fix_environment()
    modname = "sim.checks." + pid.lower()
    mod = importlib.import_module(modname)
    bld = buildmod.ensure()
    nruns = mod.RUNS[tier]
    cap = getattr(mod, "WALL_CAP", {"quick": 75, "thorough": 1500})[tier]
    nworkers = nworkers or int(os.environ.get("VERIF_WORKERS", "16"))
    known = load_known(pid)

    agg = {"evals": 0, "runs": 0, "sim_ns": 0, "faults": {}, "probes": {}, "ihashes": set(),
           "nontrivial": set(), "states": set(), "samples": [], "verdicts": {}}
    viols = {}      # sig -> result
    infra = []
    pool = mp.Pool(nworkers, initializer=_winit, initargs=(modname, tier, seed, bld.root))
    try:
        it = pool.imap_unordered(_wrun, range(nruns), chunksize=max(1, min(16, nruns // (nworkers * 8) or 1)))
        for r in it:
            agg["runs"] += 1
            agg["evals"] += r.get("evals", 1)
            agg["sim_ns"] += r.get("sim_ns", 0)
            for k, v in r.get("faults", {}).items():
                agg["faults"][k] = agg["faults"].get(k, 0) + v
            for k, v in r.get("probes", {}).items():
                agg["probes"][k] = agg["probes"].get(k, 0) + v
            if r.get("ihash"):
                agg["ihashes"].add(r["ihash"])
                if r.get("nontrivial"):
                    agg["nontrivial"].add(r["ihash"])
            for h in r.get("ihashes_nontrivial", []):
                agg["ihashes"].add(h)
                agg["nontrivial"].add(h)
            for s in r.get("states", []):
                agg["states"].add(s if isinstance(s, str) else json.dumps(s))
            if r.get("sample") is not None and len(agg["samples"]) < 4 and (r.get("nontrivial") or agg["runs"] > nruns // 2):
                agg["samples"].append(r["sample"])
            vd = r.get("verdict")
            if vd:
                agg["verdicts"][vd] = agg["verdicts"].get(vd, 0) + 1
            if not r["ok"]:
                if r.get("infra"):
                    infra.append(r)
                elif r["sig"] not in viols or r.get("size", 1 << 30) < viols[r["sig"]].get("size", 1 << 30):
                    viols[r["sig"]] = r
            if time.time() - t0 > cap or len(viols) >= max_violations * 3 or len(infra) > 3:
                break
        pool.terminate()
    finally:
        pool.close()
        pool.join()
        for d in os.listdir(SHM):
            if d.startswith("ovni-verif."):
                try:
                    pidn = int(d.split(".")[1])
                    os.kill(pidn, 0)
                except (ValueError, ProcessLookupError):
                    shutil.rmtree(os.path.join(SHM, d), ignore_errors=True)
                except PermissionError:
                    pass

    exit_code = 0
    out_lines = []
    nviol = 0
    if infra:
        sys.stderr.write("INFRASTRUCTURE ERROR in %s:\n%s\n" % (pid, infra[0]["detail"][:4000]))
        exit_code = 2

    # ---- gate every violation
    ctx = Ctx(bld, tier, os.path.join(SHM, "ovni-verif.%d" % os.getpid()))
    os.makedirs(ctx.workroot, exist_ok=True)
    try:
        n = 0
        for sig in sorted(viols):
            r = viols[sig]
            k = match_known(known, sig)
            if k:
                out_lines.append("KNOWN-FINDING: property=%s %s [%s]" % (pid, k[1], sig))
                continue
            if n >= max_violations:
                continue
            n += 1
            case = mod.gen(Rng(r["case_seed"]), tier, r["idx"])
            r1 = mod.run(case, ctx)
            r2 = mod.run(case, ctx)
            if r1["ok"] or r2["ok"] or r1["vclass"] != r["vclass"] or r1.get("ihash") != r2.get("ihash") or r1["sig"] != r2["sig"] or r1["det"] != r2["det"]:
                sys.stderr.write("GATE FAILED (not deterministic) for %s sig=%s\n first: %s\n second: %s\n" % (
                    pid, sig, r1["detail"][:1500], r2["detail"][:1500]))
                exit_code = 2
                continue
            small, tries = shrink_case(mod, case, ctx, r["vclass"])
            rs = mod.run(small, ctx)
            if rs["ok"] or rs["vclass"] != r["vclass"]:
                small, rs = case, r1
            k2 = match_known(known, rs["sig"])
            if k2:
                out_lines.append("KNOWN-FINDING: property=%s %s [%s]" % (pid, k2[1], rs["sig"]))
                continue
            path = write_replay(pid, seed, n, small, rs, tier)
            rp = subprocess.run([sys.executable, os.path.join(VERIF, "ovv"), "replay", path],
                                stdout=subprocess.PIPE, stderr=subprocess.STDOUT)
            if rp.returncode != 1:
                sys.stderr.write("GATE FAILED (fresh-process replay exit %d) for %s\n%s\n" % (
                    rp.returncode, path, rp.stdout.decode(errors="replace")[-2000:]))
                exit_code = 2
                continue
            nviol += 1
            out_lines.append("violation class=%s (shrunk in %d re-executions)\n%s" % (rs["vclass"], tries, rs["detail"][:3000]))
            out_lines.append("VIOLATION property=%s replay=%s" % (pid, path))
            if exit_code == 0:
                exit_code = 1
    finally:
        shutil.rmtree(ctx.workroot, ignore_errors=True)

    wall = time.time() - t0
    distinct_nt = len(agg["nontrivial"])
    extra = mod.evidence_extra(agg) if hasattr(mod, "evidence_extra") else {}
    ev = {
        "property_id": pid, "tier": tier, "seed": seed, "level": mod.LEVEL,
        "coverage": {
            "evaluations": agg["evals"],
            "distinct_nontrivial": distinct_nt,
            "rule": mod.RULE,
            "samples": agg["samples"] or ["(no sample recorded)"],
            "simulated_runs": agg["runs"],
            "runs_per_hour": int(agg["runs"] / wall * 3600) if wall > 0 else 0,
            "simulated_time_ns": agg["sim_ns"],
            "fault_kinds_fired": dict(sorted(agg["faults"].items())),
            "probes": dict(sorted(agg["probes"].items())),
            "probes_at_zero": sorted(k for k, v in agg["probes"].items() if v == 0),
            "distinct_interleavings": len(agg["ihashes"]),
            "abstract_states_reached": len(agg["states"]),
            "verdicts": dict(sorted(agg["verdicts"].items())),
            "real_components": getattr(mod, "REAL", []),
            "stubbed_components": getattr(mod, "STUB", []),
            "exhaustive": False,
            "workers": nworkers,
        },
        "assumptions": getattr(mod, "ASSUMPTIONS", []),
        "wall_s": round(wall, 2),
        "violations": nviol,
    }
    ev["coverage"].update(extra)
    os.makedirs(os.path.join(OUTDIR, "evidence"), exist_ok=True)
    with open(os.path.join(OUTDIR, "evidence", pid + ".json"), "w") as f:
        json.dump(ev, f, indent=1, sort_keys=True)
    for l in out_lines:
        # details may quote bytes of a corrupted stream: keep stdout plain printable ASCII
        print(plain(l))
    print("%s tier=%s seed=%d runs=%d evals=%d distinct_nontrivial=%d wall=%.1fs exit=%d" % (
        pid, tier, seed, agg["runs"], agg["evals"], distinct_nt, wall, exit_code))
    return exit_code
