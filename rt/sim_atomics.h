/* Forced-include for the three /repo translation units built into rtsim:
 * every <stdatomic.h> operation the runtime uses becomes a yield point of the
 * simulated scheduler, so that check-then-act sequences are interleavable. */
#ifndef SIM_ATOMICS_H
#define SIM_ATOMICS_H
#include <stdatomic.h>
extern void sim_yield_point(int kind);
#undef atomic_load
#define atomic_load(p) (sim_yield_point(1), atomic_load_explicit((p), memory_order_seq_cst))
#undef atomic_store
#define atomic_store(p, v) (sim_yield_point(2), atomic_store_explicit((p), (v), memory_order_seq_cst))
#undef atomic_compare_exchange_strong
#define atomic_compare_exchange_strong(p, e, d) \
	(sim_yield_point(3), atomic_compare_exchange_strong_explicit((p), (e), (d), memory_order_seq_cst, memory_order_seq_cst))
#undef atomic_exchange
#define atomic_exchange(p, v) (sim_yield_point(4), atomic_exchange_explicit((p), (v), memory_order_seq_cst))
#undef atomic_fetch_add
#define atomic_fetch_add(p, v) (sim_yield_point(5), atomic_fetch_add_explicit((p), (v), memory_order_seq_cst))
#endif
