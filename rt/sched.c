/* Seeded scheduler: real pthreads, exactly one released at a time.
 * This translation unit is never compiled with -fsanitize=thread and uses raw
 * futex(2) + relaxed atomics, so ThreadSanitizer sees no happens-before edge
 * from the serialisation itself. */
#include <errno.h>
#include <limits.h>
#include <linux/futex.h>
#include <stdatomic.h>
#include <stdio.h>
#include <stdlib.h>
#include <string.h>
#include <sys/syscall.h>
#include <unistd.h>

#include "sim.h"

enum { ST_NEW = 0, ST_READY, ST_BLOCKED, ST_DONE };

struct slot {
	_Atomic uint32_t go;
	int state;
	int wait_th, wait_n;
	int ops_done;
	long prio;
};

static struct slot slots[SIM_MAX_THREADS];
static int nth;
static int cur = -1;
static _Atomic uint32_t main_go;
static _Atomic uint32_t nready;
static uint64_t rng;
static int strategy;
static long nyields;
static int *explicit_list;
static long nexplicit, iexplicit;
#define MAXDEC (1L << 21)
static unsigned char decisions[MAXDEC];
static long ndecisions;
static long pct_points[8];
static int pct_n;
static __thread int self_id = -1;

uint64_t
sim_rand(uint64_t *s)
{
	*s += 0x9E3779B97F4A7C15ULL;
	uint64_t z = *s;
	z = (z ^ (z >> 30)) * 0xBF58476D1CE4E5B9ULL;
	z = (z ^ (z >> 27)) * 0x94D049BB133111EBULL;
	return z ^ (z >> 31);
}

static void
fwait(_Atomic uint32_t *w)
{
	while (atomic_load_explicit(w, memory_order_relaxed) == 0)
		syscall(SYS_futex, w, FUTEX_WAIT, 0, NULL, NULL, 0);
	atomic_store_explicit(w, 0, memory_order_relaxed);
}

static void
fwake(_Atomic uint32_t *w)
{
	atomic_store_explicit(w, 1, memory_order_relaxed);
	syscall(SYS_futex, w, FUTEX_WAKE, INT_MAX, NULL, NULL, 0);
}

int
sim_self(void)
{
	return self_id;
}

void
sim_sched_init(int nthreads, uint64_t seed, int strat, const char *list, int pct_depth)
{
	nth = nthreads;
	rng = seed;
	strategy = strat;
	memset(slots, 0, sizeof(slots));
	for (int i = 0; i < nth; i++)
		slots[i].prio = (long) (sim_rand(&rng) % 1000000) + 1000;
	if (list && list[0]) {
		long cap = (long) strlen(list) + 1;
		explicit_list = calloc((size_t) cap, sizeof(int));
		for (const char *p = list; *p; p++) {
			if (*p >= '0' && *p < '0' + SIM_MAX_THREADS)
				explicit_list[nexplicit++] = *p - '0';
		}
	}
	pct_n = pct_depth > 8 ? 8 : pct_depth;
	for (int i = 0; i < pct_n; i++)
		pct_points[i] = (long) (sim_rand(&rng) % 400);
}

static int
runnable(int i)
{
	struct slot *s = &slots[i];
	if (s->state == ST_READY)
		return 1;
	if (s->state == ST_BLOCKED && slots[s->wait_th].ops_done >= s->wait_n) {
		s->state = ST_READY;
		return 1;
	}
	return 0;
}

static void
record(int t)
{
	if (ndecisions < MAXDEC)
		decisions[ndecisions++] = (unsigned char) t;
}

/* Returns the next thread to run or -1 when none is runnable. */
static int
choose(int me)
{
	int cand[SIM_MAX_THREADS], n = 0;
	for (int i = 0; i < nth; i++)
		if (runnable(i))
			cand[n++] = i;
	if (n == 0)
		return -1;
	int pick = -1;
	if (explicit_list != NULL) {
		if (iexplicit < nexplicit) {
			int want = explicit_list[iexplicit++];
			for (int i = 0; i < n; i++)
				if (cand[i] == want)
					pick = want;
		}
		if (pick < 0) {
			/* list exhausted or entry not runnable: stay if possible, else first */
			for (int i = 0; i < n; i++)
				if (cand[i] == me)
					pick = me;
			if (pick < 0)
				pick = cand[0];
		}
	} else if (n == 1) {
		pick = cand[0];
	} else if (strategy == SIM_STRAT_RANDOM) {
		pick = cand[sim_rand(&rng) % (uint64_t) n];
	} else if (strategy == SIM_STRAT_SERIAL) {
		int stay = 0;
		for (int i = 0; i < n; i++)
			if (cand[i] == me)
				stay = 1;
		if (stay && sim_rand(&rng) % 100 >= 3)
			pick = me;
		else
			pick = cand[sim_rand(&rng) % (uint64_t) n];
	} else if (strategy == SIM_STRAT_RR) {
		pick = cand[0];
		for (int i = 0; i < n; i++)
			if (cand[i] > me) {
				pick = cand[i];
				break;
			}
	} else { /* PCT */
		for (int i = 0; i < pct_n; i++)
			if (pct_points[i] == nyields && me >= 0)
				slots[me].prio = i; /* drop below everything */
		pick = cand[0];
		for (int i = 1; i < n; i++)
			if (slots[cand[i]].prio > slots[pick].prio)
				pick = cand[i];
	}
	record(pick);
	return pick;
}

static void
deadlock(void)
{
	sim_log("X deadlock");
	sim_finish("deadlock", 3);
}

static void
switch_from(int me, int park)
{
	nyields++;
	int next = choose(me);
	if (next < 0) {
		int alldone = 1;
		for (int i = 0; i < nth; i++)
			if (slots[i].state != ST_DONE)
				alldone = 0;
		if (alldone) {
			cur = -1;
			fwake(&main_go);
			return;
		}
		deadlock();
	}
	if (next == me)
		return;
	cur = next;
	fwake(&slots[next].go);
	if (park)
		fwait(&slots[me].go);
}

void
sim_thread_enter(int me)
{
	self_id = me;
	slots[me].state = ST_READY;
	atomic_fetch_add_explicit(&nready, 1, memory_order_relaxed);
	syscall(SYS_futex, &nready, FUTEX_WAKE, INT_MAX, NULL, NULL, 0);
	fwait(&slots[me].go);
}

void
sim_thread_exit(int me)
{
	slots[me].state = ST_DONE;
	switch_from(me, 0);
}

void
sim_yield_point(int kind)
{
	(void) kind;
	int me = self_id;
	if (me < 0 || cur != me)
		return;
	/* the hand-off (futex) must be invisible to the program: a yield placed
	 * between "errno = 0" and a libc call would otherwise leak EAGAIN */
	int saved = errno;
	switch_from(me, 1);
	errno = saved;
}

void
sim_wait_for(int me, int other, int nops)
{
	if (slots[other].ops_done >= nops)
		return;
	int saved = errno;
	slots[me].state = ST_BLOCKED;
	slots[me].wait_th = other;
	slots[me].wait_n = nops;
	switch_from(me, 1);
	errno = saved;
}

void
sim_op_done(int me)
{
	slots[me].ops_done++;
}

int
sim_ops_done(int th)
{
	return slots[th].ops_done;
}

void
sim_run_all(void)
{
	while (atomic_load_explicit(&nready, memory_order_relaxed) < (uint32_t) nth) {
		uint32_t v = atomic_load_explicit(&nready, memory_order_relaxed);
		if (v < (uint32_t) nth)
			syscall(SYS_futex, &nready, FUTEX_WAIT, v, NULL, NULL, 0);
	}
	int first = choose(-1);
	if (first < 0)
		deadlock();
	cur = first;
	fwake(&slots[first].go);
	fwait(&main_go);
}

void
sim_dump_schedule(void)
{
	char *buf = malloc((size_t) ndecisions + 1);
	for (long i = 0; i < ndecisions; i++)
		buf[i] = (char) ('0' + decisions[i]);
	buf[ndecisions] = '\0';
	sim_log("Y %ld %s", nyields, buf);
	free(buf);
}
