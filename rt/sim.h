#ifndef SIM_H
#define SIM_H
#include <stdint.h>
#include <stddef.h>

#define SIM_MAX_THREADS 72   /* schedule lists use one printable character per decision: '0' + thread */

enum { SIM_STRAT_RANDOM = 0, SIM_STRAT_SERIAL, SIM_STRAT_RR, SIM_STRAT_PCT };

/* scheduler (sched.c, never sanitizer-instrumented for threads) */
void sim_sched_init(int nthreads, uint64_t seed, int strategy, const char *explicit_list, int pct_depth);
void sim_thread_enter(int me);              /* first thing a driver thread does: parks until scheduled */
void sim_thread_exit(int me);               /* last thing */
void sim_yield_point(int kind);             /* any yield point */
void sim_wait_for(int me, int other, int nops); /* block until `other` has completed nops ops */
void sim_op_done(int me);                   /* op counter++ */
int  sim_ops_done(int th);
void sim_run_all(void);                     /* main: release the first thread, wait for all */
int  sim_self(void);
void sim_dump_schedule(void);
uint64_t sim_rand(uint64_t *s);

/* seams (seams.c) */
struct sim_cfg {
	const char *root;          /* private directory on tmpfs */
	const char *tracedir;      /* value for OVNI_TRACEDIR or NULL */
	const char *tmpdir;        /* value for OVNI_TMPDIR or NULL */
	size_t stdio_buf;
	uint64_t clock_seed;
	int clock_mode;            /* 0 mixed, 1 always +1, 2 ties */
	long crash_step;           /* -1 none */
	long crash_partial;        /* -1 none: bytes written before dying inside write step */
	long diskfull_from;        /* -1 none */
	uint64_t shortw_seed;      /* 0 none */
	int shortw_pct;
	long sibling_rmdir_nth;    /* the n-th directory creation finds its (empty) parent removed by another process */
	int close_eintr_pct;       /* close(2) releases the descriptor and reports EINTR (Linux semantics) this often */
	uint64_t readdir_seed;     /* 0: natural order, 1: sorted, 2: reverse sorted, else shuffled */
};
extern struct sim_cfg sim_cfg;
void sim_seams_init(const char *history_path);
void sim_add_fault(long step, int err, long shortn, int readdir_eof);
void sim_log(const char *fmt, ...) __attribute__((format(printf, 1, 2)));
void sim_finish(const char *how, int code) __attribute__((noreturn));
void sim_set_op(int th, int opidx);
#endif
