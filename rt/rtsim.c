/* rtsim -- drives the real libovni sources through a plan under the simulated
 * scheduler, clock and file layer.
 *
 *   rtsim <plan> <root> <history>
 *
 * Plan lines (tokens separated by single spaces; '-' = empty):
 *   knob <name> <value>
 *   thread <idx>
 *   op <idx> <name> [args...]
 *   fault <step> <errno> <shortn> <readdir_eof>
 */
#define _GNU_SOURCE
#include <errno.h>
#include <pthread.h>
#include <stdint.h>
#include <stdio.h>
#include <stdlib.h>
#include <string.h>
#include <sys/resource.h>
#include <sys/stat.h>
#include <unistd.h>

#include "ovni.h"
#include "sim.h"

#define MAXOPS 4096
#define MAXARGS 8

struct op {
	char name[24];
	int nargs;
	char *args[MAXARGS];
};

struct thr {
	int nops;
	struct op *ops;
	int cap;
};

static struct thr thr[SIM_MAX_THREADS];
static int nthreads;

static uint64_t
xrand(uint64_t *s)
{
	return sim_rand(s);
}

static void
fill_prng(uint8_t *buf, size_t n, uint64_t seed)
{
	uint64_t s = seed;
	size_t i = 0;
	while (i < n) {
		uint64_t v = xrand(&s);
		for (int b = 0; b < 8 && i < n; b++, i++)
			buf[i] = (uint8_t) (v >> (8 * b));
	}
}

static size_t
unhex(const char *h, uint8_t *out, size_t max)
{
	size_t n = 0;
	if (h[0] == '-' && h[1] == '\0')
		return 0;
	while (h[0] && h[1] && n < max) {
		unsigned v;
		sscanf(h, "%2x", &v);
		out[n++] = (uint8_t) v;
		h += 2;
	}
	return n;
}

static uint64_t
clock_arg(const char *a)
{
	if (strcmp(a, "now") == 0)
		return ovni_clock_now();
	return strtoull(a, NULL, 10);
}

static void
run_op(int me, int idx, struct op *op)
{
	const char *n = op->name;
	char **a = op->args;
	if (strcmp(n, "wait") == 0) {
		sim_wait_for(me, atoi(a[0]), atoi(a[1]));
		return;
	}
	sim_set_op(me, idx);
	sim_log("O %d %d B %s", me, idx, n);
	sim_yield_point(20);
	if (strcmp(n, "proc_init") == 0) {
		ovni_proc_init(atoi(a[0]), a[1], atoi(a[2]));
	} else if (strcmp(n, "version_check") == 0) {
		ovni_version_check_str(a[0]);
	} else if (strcmp(n, "thread_init") == 0) {
		ovni_thread_init((pid_t) atoi(a[0]));
	} else if (strcmp(n, "require") == 0) {
		ovni_thread_require(a[0], a[1]);
	} else if (strcmp(n, "add_cpu") == 0) {
		ovni_add_cpu(atoi(a[0]), atoi(a[1]));
	} else if (strcmp(n, "set_rank") == 0) {
		ovni_proc_set_rank(atoi(a[0]), atoi(a[1]));
	} else if (strcmp(n, "emit") == 0) {
		struct ovni_ev ev = {0};
		uint8_t pl[16];
		size_t pn = unhex(a[2], pl, 16);
		ovni_ev_set_clock(&ev, clock_arg(a[1]));
		ovni_ev_set_mcv(&ev, a[0]);
		if (pn > 0)
			ovni_payload_add(&ev, pl, (int) pn);
		ovni_ev_emit(&ev);
	} else if (strcmp(n, "jumbo") == 0) {
		struct ovni_ev ev = {0};
		size_t sz = (size_t) strtoull(a[2], NULL, 10);
		uint64_t seed = strtoull(a[3], NULL, 10);
		uint8_t *buf = malloc(sz ? sz : 1);
		if (op->nargs > 4 && !(a[4][0] == '-' && a[4][1] == '\0')) {
			/* explicit data prefix (hex), rest PRNG */
			fill_prng(buf, sz, seed);
			unhex(a[4], buf, sz);
		} else {
			fill_prng(buf, sz, seed);
		}
		ovni_ev_set_clock(&ev, clock_arg(a[1]));
		ovni_ev_set_mcv(&ev, a[0]);
		ovni_ev_jumbo_emit(&ev, buf, (uint32_t) sz);
		free(buf);
	} else if (strcmp(n, "flush") == 0) {
		ovni_flush();
	} else if (strcmp(n, "thread_free") == 0) {
		ovni_thread_free();
	} else if (strcmp(n, "proc_fini") == 0) {
		ovni_proc_fini();
	} else if (strcmp(n, "attr_set_str") == 0) {
		ovni_attr_set_str(a[0], a[1]);
	} else if (strcmp(n, "attr_set_double") == 0) {
		ovni_attr_set_double(a[0], atof(a[1]));
	} else if (strcmp(n, "attr_set_boolean") == 0) {
		ovni_attr_set_boolean(a[0], atoi(a[1]));
	} else if (strcmp(n, "attr_set_json") == 0) {
		ovni_attr_set_json(a[0], a[1]);
	} else if (strcmp(n, "attr_flush") == 0) {
		ovni_attr_flush();
	} else if (strcmp(n, "mark_type") == 0) {
		ovni_mark_type(atoi(a[0]), atol(a[1]), a[2]);
	} else if (strcmp(n, "mark_label") == 0) {
		ovni_mark_label(atoi(a[0]), strtoll(a[1], NULL, 10), a[2]);
	} else if (strcmp(n, "mark_push") == 0) {
		ovni_mark_push(atoi(a[0]), strtoll(a[1], NULL, 10));
	} else if (strcmp(n, "mark_pop") == 0) {
		ovni_mark_pop(atoi(a[0]), strtoll(a[1], NULL, 10));
	} else if (strcmp(n, "mark_set") == 0) {
		ovni_mark_set(atoi(a[0]), strtoll(a[1], NULL, 10));
	} else if (strcmp(n, "clock_now") == 0) {
		(void) ovni_clock_now();
	} else if (strcmp(n, "chdir") == 0) {
		/* the application changes its working directory (directory created first, relative to the current one) */
		mkdir(a[0], 0755);
		if (chdir(a[0]) != 0) {
			perror("rtsim: chdir");
			exit(2);
		}
		/* never leave the run's own directory (a shrunk plan may have lost the matching descent) */
		char cwd[4096];
		if (getcwd(cwd, sizeof(cwd)) == NULL || strncmp(cwd, sim_cfg.root, strlen(sim_cfg.root)) != 0) {
			if (chdir(sim_cfg.root) != 0) {
				perror("rtsim: chdir root");
				exit(2);
			}
		}
	} else if (strcmp(n, "isready") == 0) {
		sim_log("R %d %d %d", me, idx, ovni_thread_isready());
	} else {
		fprintf(stderr, "rtsim: unknown op %s\n", n);
		sim_finish("badplan", 4);
	}
	sim_yield_point(21);
	sim_log("O %d %d E", me, idx);
}

static void *
thread_main(void *arg)
{
	int me = (int) (intptr_t) arg;
	sim_thread_enter(me);
	for (int i = 0; i < thr[me].nops; i++) {
		run_op(me, i, &thr[me].ops[i]);
		sim_op_done(me);
	}
	sim_thread_exit(me);
	return NULL;
}

static char *
unescape(const char *s)
{
	/* '%20' style escapes for spaces inside arguments */
	char *o = malloc(strlen(s) + 1), *p = o;
	while (*s) {
		if (s[0] == '%' && s[1] && s[2]) {
			unsigned v;
			sscanf(s + 1, "%2x", &v);
			*p++ = (char) v;
			s += 3;
		} else {
			*p++ = *s++;
		}
	}
	*p = '\0';
	return o;
}

int
main(int argc, char *argv[])
{
	if (argc < 4) {
		fprintf(stderr, "usage: rtsim plan root history\n");
		return 2;
	}
	const char *root = argv[2];
	FILE *f = fopen(argv[1], "r");
	if (!f) {
		perror("plan");
		return 2;
	}
	memset(&sim_cfg, 0, sizeof(sim_cfg));
	sim_cfg.root = root;
	sim_cfg.crash_step = -1;
	sim_cfg.crash_partial = -1;
	sim_cfg.diskfull_from = -1;
	sim_cfg.stdio_buf = 4096;
	uint64_t sched_seed = 1;
	int strategy = SIM_STRAT_RANDOM, pct = 2;
	char *explicit_list = NULL;
	long nofile = 0;
	int close_stdin = 0;
	int close_stderr = 0;
	char *line = NULL;
	size_t cap = 0;
	sim_seams_init(argv[3]);
	while (getline(&line, &cap, f) > 0) {
		size_t L = strlen(line);
		while (L && (line[L - 1] == '\n' || line[L - 1] == '\r'))
			line[--L] = '\0';
		if (L == 0 || line[0] == '#')
			continue;
		char *tok[MAXARGS + 4];
		int nt = 0;
		char *save = NULL;
		for (char *t = strtok_r(line, " ", &save); t && nt < MAXARGS + 4; t = strtok_r(NULL, " ", &save))
			tok[nt++] = t;
		if (strcmp(tok[0], "knob") == 0 && nt >= 3) {
			const char *k = tok[1], *v = tok[2];
			char path[4096];
			if (!strcmp(k, "stdio_buf")) sim_cfg.stdio_buf = (size_t) atol(v);
			else if (!strcmp(k, "tracedir")) { (void) path; sim_cfg.tracedir = strdup(v); } /* relative to root (= cwd) */
			else if (!strcmp(k, "tmpdir")) { sim_cfg.tmpdir = strdup(v); }
			else if (!strcmp(k, "clock_seed")) sim_cfg.clock_seed = strtoull(v, NULL, 10);
			else if (!strcmp(k, "clock_mode")) sim_cfg.clock_mode = atoi(v);
			else if (!strcmp(k, "crash_step")) sim_cfg.crash_step = atol(v);
			else if (!strcmp(k, "crash_partial")) sim_cfg.crash_partial = atol(v);
			else if (!strcmp(k, "diskfull_from")) sim_cfg.diskfull_from = atol(v);
			else if (!strcmp(k, "shortw_seed")) sim_cfg.shortw_seed = strtoull(v, NULL, 10);
			else if (!strcmp(k, "shortw_pct")) sim_cfg.shortw_pct = atoi(v);
			else if (!strcmp(k, "close_eintr_pct")) sim_cfg.close_eintr_pct = atoi(v);
			else if (!strcmp(k, "sibling_rmdir_nth")) sim_cfg.sibling_rmdir_nth = atol(v);
			else if (!strcmp(k, "readdir")) sim_cfg.readdir_seed = strtoull(v, NULL, 10);
			else if (!strcmp(k, "sched_seed")) sched_seed = strtoull(v, NULL, 10);
			else if (!strcmp(k, "strategy")) strategy = atoi(v);
			else if (!strcmp(k, "pct_depth")) pct = atoi(v);
			else if (!strcmp(k, "sched")) explicit_list = strdup(v);
			else if (!strcmp(k, "nofile")) nofile = atol(v);
			else if (!strcmp(k, "close_stdin")) close_stdin = atoi(v);
			else if (!strcmp(k, "close_stderr")) close_stderr = atoi(v);
			else { fprintf(stderr, "rtsim: unknown knob %s\n", k); return 2; }
		} else if (strcmp(tok[0], "thread") == 0) {
			int i = atoi(tok[1]);
			if (i + 1 > nthreads) nthreads = i + 1;
		} else if (strcmp(tok[0], "op") == 0 && nt >= 3) {
			int i = atoi(tok[1]);
			if (i + 1 > nthreads) nthreads = i + 1;
			struct thr *t = &thr[i];
			if (t->nops >= t->cap) {
				t->cap = t->cap ? t->cap * 2 : 64;
				t->ops = realloc(t->ops, (size_t) t->cap * sizeof(struct op));
			}
			struct op *o = &t->ops[t->nops++];
			memset(o, 0, sizeof(*o));
			snprintf(o->name, sizeof(o->name), "%s", tok[2]);
			for (int j = 3; j < nt && o->nargs < MAXARGS; j++)
				o->args[o->nargs++] = unescape(tok[j]);
		} else if (strcmp(tok[0], "fault") == 0 && nt >= 5) {
			sim_add_fault(atol(tok[1]), atoi(tok[2]), atol(tok[3]), atoi(tok[4]));
		} else {
			fprintf(stderr, "rtsim: bad plan line: %s\n", tok[0]);
			return 2;
		}
	}
	fclose(f);
	if (nthreads <= 0 || nthreads > SIM_MAX_THREADS)
		return 2;
	if (chdir(root) != 0) {
		perror("chdir root");
		return 2;
	}
	if (close_stdin) {
		/* a daemon's environment: descriptor 0 is free, so the first file the library opens gets it */
		close(0);
	}
	if (close_stderr) {
		/* started with descriptor 2 closed: whatever the library prints as a warning goes to the
		 * next file opened with that number */
		close(2);
	}
	if (nofile > 0) {
		/* a small descriptor table stands in for a long process life: whatever the library
		 * keeps per finished thread runs out after tens of threads instead of thousands.
		 * sim_finish() lifts the limit again before it writes the history. */
		struct rlimit rl;
		getrlimit(RLIMIT_NOFILE, &rl);
		rl.rlim_cur = (rlim_t) nofile;
		setrlimit(RLIMIT_NOFILE, &rl);
	}
	sim_sched_init(nthreads, sched_seed, strategy, explicit_list, pct);
	pthread_t tid[SIM_MAX_THREADS];
	for (int i = 0; i < nthreads; i++)
		pthread_create(&tid[i], NULL, thread_main, (void *) (intptr_t) i);
	sim_run_all();
	sim_finish("done", 0);
}
