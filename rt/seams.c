/* The file, clock, environment and process-death seams of rtsim.
 * Every libc call the runtime library issues lands here first (ld --wrap). */
#define _GNU_SOURCE
#include <dirent.h>
#include <errno.h>
#include <fcntl.h>
#include <stdarg.h>
#include <stdint.h>
#include <stdio.h>
#include <stdlib.h>
#include <string.h>
#include <sys/resource.h>
#include <sys/stat.h>
#include <sys/syscall.h>
#include <sys/types.h>
#include <time.h>
#include <unistd.h>

#include "sim.h"

struct sim_cfg sim_cfg;

/* ------------------------------------------------------------------ history */
/* One log buffer per thread (+1 for the main thread), merged by sequence
 * number at exit: the harness must not share memory through intercepted libc
 * functions, or ThreadSanitizer would report the harness instead of the library. */
struct logbuf {
	char *p;
	size_t len, cap;
};
static struct logbuf logs[SIM_MAX_THREADS + 1];
static unsigned long logseq;
static const char *hist_path;
static long step;             /* next step number */
static int cur_op[SIM_MAX_THREADS];

static void
bytecopy(char *dst, const char *src, size_t n)
{
	/* not memcpy(): see above */
	volatile char *d = dst;
	for (size_t i = 0; i < n; i++)
		d[i] = src[i];
}

void
sim_log(const char *fmt, ...)
{
	char line[4608];
	int th = sim_self();
	struct logbuf *lb = &logs[th < 0 ? SIM_MAX_THREADS : th];
	int m = snprintf(line, 32, "%lu ", logseq++);
	va_list ap;
	va_start(ap, fmt);
	int n = vsnprintf(line + m, sizeof(line) - 2 - (size_t) m, fmt, ap);
	va_end(ap);
	if (n < 0)
		return;
	n += m;
	if ((size_t) n > sizeof(line) - 2)
		n = (int) sizeof(line) - 2;
	line[n++] = '\n';
	if (lb->len + (size_t) n + 1 > lb->cap) {
		lb->cap = lb->cap ? lb->cap * 2 : (1 << 16);
		while (lb->cap < lb->len + (size_t) n + 1)
			lb->cap *= 2;
		lb->p = realloc(lb->p, lb->cap);
	}
	bytecopy(lb->p + lb->len, line, (size_t) n);
	lb->len += (size_t) n;
}

extern ssize_t __real_write(int fd, const void *buf, size_t n);
extern int __real_open(const char *path, int flags, ...);
extern int __real_close(int fd);

void
sim_finish(const char *how, int code)
{
	sim_dump_schedule();
	sim_log("X %s step=%ld th=%d", how, step, sim_self());
	/* the history must come out even when the run ended because descriptors ran out */
	struct rlimit rl;
	if (getrlimit(RLIMIT_NOFILE, &rl) == 0 && rl.rlim_cur < rl.rlim_max) {
		rl.rlim_cur = rl.rlim_max;
		setrlimit(RLIMIT_NOFILE, &rl);
	}
	/* raw system calls: the sanitizer runtimes must not look at harness buffers */
	int fd = (int) syscall(SYS_openat, AT_FDCWD, hist_path, O_WRONLY | O_CREAT | O_TRUNC, 0644);
	if (fd >= 0) {
		/* k-way merge by sequence number */
		size_t pos[SIM_MAX_THREADS + 1] = {0};
		for (;;) {
			int best = -1;
			unsigned long bestseq = 0;
			for (int i = 0; i <= SIM_MAX_THREADS; i++) {
				if (pos[i] >= logs[i].len)
					continue;
				unsigned long sq = strtoul(logs[i].p + pos[i], NULL, 10);
				if (best < 0 || sq < bestseq) {
					best = i;
					bestseq = sq;
				}
			}
			if (best < 0)
				break;
			char *start = logs[best].p + pos[best];
			char *nl = start;
			while (*nl != '\n')
				nl++;
			char *sp = start;
			while (*sp != ' ')
				sp++;
			sp++;
			size_t off = 0, len = (size_t) (nl - sp) + 1;
			while (off < len) {
				ssize_t w = (ssize_t) syscall(SYS_write, fd, sp + off, len - off);
				if (w <= 0)
					break;
				off += (size_t) w;
			}
			pos[best] = (size_t) (nl - logs[best].p) + 1;
		}
		syscall(SYS_close, fd);
	}
	fflush(stderr);
	_exit(code);
}

void
sim_set_op(int th, int opidx)
{
	cur_op[th] = opidx;
}

void
sim_seams_init(const char *history_path)
{
	hist_path = history_path;
	for (int i = 0; i < SIM_MAX_THREADS; i++)
		cur_op[i] = -1;
}

/* ------------------------------------------------------------------- faults */
struct fault {
	long step;
	int err;
	long shortn;
	int readdir_eof;
};
static struct fault faults[64];
static int nfaults;

void
sim_add_fault(long s, int err, long shortn, int readdir_eof)
{
	if (nfaults < 64) {
		faults[nfaults].step = s;
		faults[nfaults].err = err;
		faults[nfaults].shortn = shortn;
		faults[nfaults].readdir_eof = readdir_eof;
		nfaults++;
	}
}

static struct fault *
fault_at(long s)
{
	for (int i = 0; i < nfaults; i++)
		if (faults[i].step == s)
			return &faults[i];
	return NULL;
}

/* fd -> path (for attribution of writes) */
#define MAXFD 256
static char fdpath_buf[MAXFD][512];
static char *fdpath[MAXFD];

static void
set_fdpath(int fd, const char *path)
{
	size_t n = 0;
	while (path[n] && n < 511)
		n++;
	bytecopy(fdpath_buf[fd], path, n);
	fdpath_buf[fd][n] = '\0';
	fdpath[fd] = fdpath_buf[fd];
}

static const char *
rel(const char *p)
{
	size_t n = strlen(sim_cfg.root);
	if (p && strncmp(p, sim_cfg.root, n) == 0)
		return p + n;
	return p ? p : "?";
}

/* One numbered step.  Returns the step number; sets *f to the injected fault
 * (or NULL).  Kills the process when the crash point is reached. */
static long
begin_step(const char *call, struct fault **f)
{
	sim_yield_point(10);
	long k = step++;
	if (sim_cfg.crash_step == k && sim_cfg.crash_partial < 0) {
		sim_log("K %ld %d %s", k, sim_self(), call);
		sim_finish("crash", 137);
	}
	*f = fault_at(k);
	return k;
}

static void
end_step(long k, const char *call, const char *path, long req, long ret, int err)
{
	int th = sim_self();
	sim_log("S %ld %d %d %s %ld %ld %d %s", k, th, th >= 0 ? cur_op[th] : -1, call, req, ret, err, rel(path));
}

/* --------------------------------------------------------------------- clock */
static uint64_t simclock = 1000000000ULL; /* ns */
static uint64_t clock_rng;
static int clock_init;

extern int __real_clock_gettime(clockid_t id, struct timespec *tp);

int
__wrap_clock_gettime(clockid_t id, struct timespec *tp)
{
	int th = sim_self();
	if (th < 0)
		return __real_clock_gettime(id, tp);
	if (!clock_init) {
		clock_rng = sim_cfg.clock_seed;
		clock_init = 1;
	}
	uint64_t r = sim_rand(&clock_rng);
	uint64_t d;
	if (sim_cfg.clock_mode == 1) {
		d = 1;
	} else if (sim_cfg.clock_mode == 2) {
		d = (r % 4 == 0) ? 1 : 0;
	} else {
		switch (r % 10) {
			case 0: case 1: d = 0; break;                       /* ties */
			case 2: case 3: case 4: d = 1; break;
			case 5: case 6: case 7: d = 2 + (r >> 8) % 1000; break;
			case 8: d = 1000000 + (r >> 8) % 50000000; break;   /* ms range */
			default: d = (sim_cfg.clock_mode == 3) ? 1000000000ULL : 3600ULL * 1000000000ULL; break; /* one hour (1 s in mode 3) */
		}
	}
	simclock += d;
	tp->tv_sec = (time_t) (simclock / 1000000000ULL);
	tp->tv_nsec = (long) (simclock % 1000000000ULL);
	sim_log("C %d %d %llu", th, cur_op[th], (unsigned long long) simclock);
	return 0;
}

/* --------------------------------------------------------------- environment */
extern char *__real_getenv(const char *name);

char *
__wrap_getenv(const char *name)
{
	if (strcmp(name, "OVNI_TRACEDIR") == 0)
		return (char *) sim_cfg.tracedir;
	if (strcmp(name, "OVNI_TMPDIR") == 0)
		return (char *) sim_cfg.tmpdir;
	return __real_getenv(name);
}

/* ------------------------------------------------------------- process death */
void
__wrap_abort(void)
{
	sim_log("A %ld %d %d", step, sim_self(), sim_self() >= 0 ? cur_op[sim_self()] : -1);
	sim_finish("abort", 134);
}

/* ---------------------------------------------------------------- file calls */
extern int __real_mkdir(const char *path, mode_t mode);
extern int __real_stat(const char *path, struct stat *st);
extern int __real_remove(const char *path);
extern int __real_rmdir(const char *path);

static int
diskfull(long k)
{
	return sim_cfg.diskfull_from >= 0 && k >= sim_cfg.diskfull_from;
}

int
__wrap_mkdir(const char *path, mode_t mode)
{
	if (sim_self() < 0)
		return __real_mkdir(path, mode);
	struct fault *f;
	long k = begin_step("mkdir", &f);
	int ret, e = 0;
	if (f && f->err) {
		ret = -1;
		e = f->err;
	} else if (diskfull(k)) {
		/* creating a new directory needs space; an existing one reports EEXIST */
		struct stat st;
		if (__real_stat(path, &st) == 0) {
			ret = -1;
			e = EEXIST;
		} else {
			ret = -1;
			e = ENOSPC;
		}
	} else {
		static long ncreate;
		struct stat stx;
		int creates = __real_stat(path, &stx) != 0;
		if (creates)
			ncreate++;
		if (creates && sim_cfg.sibling_rmdir_nth > 0 && ncreate == sim_cfg.sibling_rmdir_nth) {
			/* another process of the same loom finishes right now and removes the (still empty)
			 * directory this one has just created and is about to create a child in */
			char parent[4096];
			size_t n = strlen(path);
			while (n > 0 && path[n - 1] == '/')
				n--;
			while (n > 0 && path[n - 1] != '/')
				n--;
			while (n > 1 && path[n - 1] == '/')
				n--;
			if (n > 0 && n < sizeof(parent)) {
				bytecopy(parent, path, n);
				parent[n] = '\0';
				__real_rmdir(parent);
			}
		}
		ret = __real_mkdir(path, mode);
		e = ret ? errno : 0;
	}
	end_step(k, "mkdir", path, 0, ret, e);
	errno = e;
	return ret;
}

int
__wrap_stat(const char *path, struct stat *st)
{
	if (sim_self() < 0)
		return __real_stat(path, st);
	struct fault *f;
	long k = begin_step("stat", &f);
	int ret, e = 0;
	if (f && f->err) {
		ret = -1;
		e = f->err;
	} else {
		ret = __real_stat(path, st);
		e = ret ? errno : 0;
	}
	end_step(k, "stat", path, 0, ret, e);
	errno = e;
	return ret;
}

int
__wrap_open(const char *path, int flags, ...)
{
	mode_t mode = 0;
	if (flags & O_CREAT) {
		va_list ap;
		va_start(ap, flags);
		mode = (mode_t) va_arg(ap, int);
		va_end(ap);
	}
	if (sim_self() < 0)
		return __real_open(path, flags, mode);
	struct fault *f;
	long k = begin_step("open", &f);
	int ret, e = 0;
	if (f && f->err) {
		ret = -1;
		e = f->err;
	} else if (diskfull(k) && (flags & O_CREAT) && access(path, F_OK) != 0) {
		ret = -1;
		e = ENOSPC;
	} else {
		ret = __real_open(path, flags, mode);
		e = ret < 0 ? errno : 0;
		if (ret >= 0 && ret < MAXFD)
			set_fdpath(ret, path);
	}
	end_step(k, "open", path, flags, ret, e);
	errno = e;
	return ret;
}

static ssize_t
do_write(const char *call, int fd, const void *buf, size_t n)
{
	struct fault *f;
	long k = begin_step(call, &f);
	ssize_t ret;
	int e = 0;
	const char *path = (fd >= 0 && fd < MAXFD && fdpath[fd]) ? fdpath[fd] : "?";
	if (sim_cfg.crash_step == k && sim_cfg.crash_partial >= 0) {
		size_t j = (size_t) sim_cfg.crash_partial < n ? (size_t) sim_cfg.crash_partial : n;
		size_t off = 0;
		while (off < j) {
			ssize_t w = __real_write(fd, (const char *) buf + off, j - off);
			if (w <= 0)
				break;
			off += (size_t) w;
		}
		sim_log("K %ld %d %s partial=%zu of %zu %s", k, sim_self(), call, off, n, rel(path));
		sim_finish("crash", 137);
	}
	size_t want = n;
	if (f && f->err) {
		ret = -1;
		e = f->err;
	} else if (diskfull(k) && n > 0) {
		ret = -1;
		e = ENOSPC;
	} else {
		if (f && f->shortn > 0 && (size_t) f->shortn < n)
			want = (size_t) f->shortn;
		else if (sim_cfg.shortw_seed && n > 1) {
			uint64_t s = sim_cfg.shortw_seed ^ ((uint64_t) k * 0x9E3779B97F4A7C15ULL);
			uint64_t r = sim_rand(&s);
			if ((int) (r % 100) < sim_cfg.shortw_pct) {
				uint64_t r2 = sim_rand(&s);
				switch (r2 % 4) {
					case 0: want = 1; break;
					case 1: want = n - 1; break;
					case 2: want = 1 + (r2 >> 8) % (n - 1); break;
					default: want = n / 2 ? n / 2 : 1; break;
				}
			}
		}
		size_t off = 0;
		ret = 0;
		while (off < want) {
			ssize_t w = __real_write(fd, (const char *) buf + off, want - off);
			if (w < 0) {
				e = errno;
				break;
			}
			off += (size_t) w;
		}
		ret = (off == 0 && e) ? -1 : (ssize_t) off;
	}
	end_step(k, call, path, (long) n, (long) ret, e);
	errno = e;
	return ret;
}

ssize_t
__wrap_write(int fd, const void *buf, size_t n)
{
	if (sim_self() < 0)
		return __real_write(fd, buf, n);
	return do_write("write", fd, buf, n);
}

int
__wrap_close(int fd)
{
	if (sim_self() < 0)
		return __real_close(fd);
	struct fault *f;
	long k = begin_step("close", &f);
	const char *path = (fd >= 0 && fd < MAXFD && fdpath[fd]) ? fdpath[fd] : "?";
	if (f && f->err && f->shortn > 0) {
		/* write-behind storage (NFS, quota): earlier write(2) calls were accepted, the error only
		 * surfaces at close and the tail of the data never reached the file */
		struct stat st;
		if (fstat(fd, &st) == 0 && st.st_size > 8)
			if (ftruncate(fd, 8 + (st.st_size - 8) / 2) != 0) { /* best effort */ }
	}
	int ret = __real_close(fd);
	int e = ret ? errno : 0;
	if (f && f->err) {
		ret = -1;
		e = f->err;
	} else if (sim_cfg.close_eintr_pct > 0) {
		/* interrupted close: on Linux the descriptor is gone all the same */
		uint64_t s = sim_cfg.clock_seed ^ ((uint64_t) k * 0x9E3779B97F4A7C15ULL) ^ 0xC105EULL;
		if ((int) (sim_rand(&s) % 100) < sim_cfg.close_eintr_pct) {
			ret = -1;
			e = EINTR;
		}
	}
	end_step(k, "close", path, fd, ret, e);
	errno = e;
	return ret;
}

extern int __real_fcntl(int fd, int cmd, ...);

/* Not a numbered step (nothing to fail that the properties talk about): the only job here is to
 * keep the descriptor -> path table right when the library duplicates a descriptor. */
int
__wrap_fcntl(int fd, int cmd, ...)
{
	va_list ap;
	va_start(ap, cmd);
	long arg = va_arg(ap, long);
	va_end(ap);
	int ret = __real_fcntl(fd, cmd, arg);
	if (sim_self() >= 0 && ret >= 0 && ret < MAXFD && (cmd == F_DUPFD || cmd == F_DUPFD_CLOEXEC)
			&& fd >= 0 && fd < MAXFD && fdpath[fd]) {
		int e = errno;
		set_fdpath(ret, fdpath[fd]);
		errno = e;
	}
	return ret;
}

int
__wrap_remove(const char *path)
{
	if (sim_self() < 0)
		return __real_remove(path);
	struct fault *f;
	long k = begin_step("remove", &f);
	int ret, e = 0;
	if (f && f->err) {
		ret = -1;
		e = f->err;
	} else {
		ret = __real_remove(path);
		e = ret ? errno : 0;
	}
	end_step(k, "remove", path, 0, ret, e);
	errno = e;
	return ret;
}

int
__wrap_rmdir(const char *path)
{
	if (sim_self() < 0)
		return __real_rmdir(path);
	struct fault *f;
	long k = begin_step("rmdir", &f);
	int ret, e = 0;
	if (f && f->err) {
		ret = -1;
		e = f->err;
	} else {
		ret = __real_rmdir(path);
		e = ret ? errno : 0;
	}
	end_step(k, "rmdir", path, 0, ret, e);
	errno = e;
	return ret;
}

/* Calls the runtime does not issue today but a change to it plausibly would:
 * they are steps (and crash/fault points) too, so that new code cannot escape
 * the simulator unnoticed. */
extern int __real_rename(const char *a, const char *b);
extern int __real_unlink(const char *path);
extern int __real_fsync(int fd);
extern int __real_fdatasync(int fd);

int
__wrap_rename(const char *a, const char *b)
{
	if (sim_self() < 0)
		return __real_rename(a, b);
	struct fault *f;
	long k = begin_step("rename", &f);
	int ret, e = 0;
	if (f && f->err) {
		ret = -1;
		e = f->err;
	} else {
		ret = __real_rename(a, b);
		e = ret ? errno : 0;
	}
	end_step(k, "rename", b, 0, ret, e);
	errno = e;
	return ret;
}

int
__wrap_unlink(const char *path)
{
	if (sim_self() < 0)
		return __real_unlink(path);
	struct fault *f;
	long k = begin_step("unlink", &f);
	int ret, e = 0;
	if (f && f->err) {
		ret = -1;
		e = f->err;
	} else {
		ret = __real_unlink(path);
		e = ret ? errno : 0;
	}
	end_step(k, "unlink", path, 0, ret, e);
	errno = e;
	return ret;
}

static int
sync_step(const char *call, int fd, int (*real)(int))
{
	struct fault *f;
	long k = begin_step(call, &f);
	int ret, e = 0;
	if (f && f->err) {
		ret = -1;
		e = f->err;
	} else {
		ret = real(fd);
		e = ret ? errno : 0;
	}
	end_step(k, call, (fd >= 0 && fd < MAXFD && fdpath[fd]) ? fdpath[fd] : "?", fd, ret, e);
	errno = e;
	return ret;
}

int
__wrap_fsync(int fd)
{
	if (sim_self() < 0)
		return __real_fsync(fd);
	return sync_step("fsync", fd, __real_fsync);
}

int
__wrap_fdatasync(int fd)
{
	if (sim_self() < 0)
		return __real_fdatasync(fd);
	return sync_step("fdatasync", fd, __real_fdatasync);
}

/* ------------------------------------------------------------- stdio streams */
struct cookie {
	int fd;
	char *path;
	char *buf;
};

static ssize_t
ck_read(void *c, char *buf, size_t n)
{
	struct cookie *ck = c;
	struct fault *f;
	long k = begin_step("fread", &f);
	ssize_t ret;
	int e = 0;
	if (f && f->err) {
		ret = -1;
		e = f->err;
	} else {
		size_t want = n;
		if (f && f->shortn > 0 && (size_t) f->shortn < n)
			want = (size_t) f->shortn;
		ret = read(ck->fd, buf, want);
		e = ret < 0 ? errno : 0;
	}
	end_step(k, "fread", ck->path, (long) n, (long) ret, e);
	errno = e;
	return ret;
}

static ssize_t
ck_write(void *c, const char *buf, size_t n)
{
	struct cookie *ck = c;
	/* glibc's fd-backed streams loop over short write(2) results
	 * (_IO_new_file_write); a cookie stream would not, so the loop lives
	 * here and every write(2) stays a numbered step of its own. */
	size_t off = 0;
	while (off < n) {
		ssize_t r = do_write("fwrite", ck->fd, buf + off, n - off);
		if (r < 0)
			break; /* fopencookie: report what was written, 0 on error */
		off += (size_t) r;
	}
	return (ssize_t) off;
}

static int
ck_close(void *c)
{
	struct cookie *ck = c;
	struct fault *f;
	long k = begin_step("fclose", &f);
	int ret = __real_close(ck->fd);
	int e = ret ? errno : 0;
	if (f && f->err) {
		ret = -1;
		e = f->err;
	}
	end_step(k, "fclose", ck->path, ck->fd, ret, e);
	free(ck->path);
	/* the stdio buffer is owned by the FILE until fclose returns; leak it on purpose */
	free(ck);
	errno = e;
	return ret;
}

extern FILE *__real_fopen(const char *path, const char *mode);

FILE *
__wrap_fopen(const char *path, const char *mode)
{
	if (sim_self() < 0)
		return __real_fopen(path, mode);
	struct fault *f;
	long k = begin_step("fopen", &f);
	int wr = (mode[0] == 'w' || mode[0] == 'a');
	int flags = wr ? (O_WRONLY | O_CREAT | (mode[0] == 'w' ? O_TRUNC : O_APPEND)) : O_RDONLY;
	int fd = -1, e = 0;
	if (f && f->err) {
		e = f->err;
	} else if (diskfull(k) && wr && access(path, F_OK) != 0) {
		e = ENOSPC;
	} else {
		fd = __real_open(path, flags, 0666);
		e = fd < 0 ? errno : 0;
	}
	end_step(k, "fopen", path, wr, fd, e);
	if (fd < 0) {
		errno = e;
		return NULL;
	}
	if (fd < MAXFD)
		set_fdpath(fd, path);
	struct cookie *ck = calloc(1, sizeof(*ck));
	ck->fd = fd;
	ck->path = strdup(path);
	cookie_io_functions_t io = { .read = ck_read, .write = ck_write, .seek = NULL, .close = ck_close };
	FILE *fp = fopencookie(ck, mode, io);
	if (fp == NULL) {
		__real_close(fd);
		errno = ENOMEM;
		return NULL;
	}
	size_t bs = sim_cfg.stdio_buf ? sim_cfg.stdio_buf : 4096;
	ck->buf = malloc(bs);
	setvbuf(fp, ck->buf, _IOFBF, bs);
	return fp;
}

/* ---------------------------------------------------------------- directories */
struct simdir {
	struct dirent *ents;
	int n, i;
	int eof_at; /* -1: none; index at which the listing ends with EIO */
	char *path;
};

static int
cmp_name(const void *a, const void *b)
{
	return strcmp(((const struct dirent *) a)->d_name, ((const struct dirent *) b)->d_name);
}

extern DIR *__real_opendir(const char *path);
extern struct dirent *__real_readdir(DIR *d);
extern int __real_closedir(DIR *d);

DIR *
__wrap_opendir(const char *path)
{
	if (sim_self() < 0)
		return __real_opendir(path);
	struct fault *f;
	long k = begin_step("opendir", &f);
	int e = 0;
	struct simdir *sd = NULL;
	if (f && f->err) {
		e = f->err;
	} else {
		DIR *d = __real_opendir(path);
		if (d == NULL) {
			e = errno;
		} else {
			sd = calloc(1, sizeof(*sd));
			sd->eof_at = -1;
			sd->path = strdup(path);
			struct dirent *de;
			int cap = 0;
			while ((de = __real_readdir(d)) != NULL) {
				if (sd->n >= cap) {
					cap = cap ? cap * 2 : 8;
					sd->ents = realloc(sd->ents, (size_t) cap * sizeof(struct dirent));
				}
				sd->ents[sd->n++] = *de;
			}
			__real_closedir(d);
			qsort(sd->ents, (size_t) sd->n, sizeof(struct dirent), cmp_name);
			uint64_t s = sim_cfg.readdir_seed;
			if (s == 2) {
				for (int i = 0; i < sd->n / 2; i++) {
					struct dirent t = sd->ents[i];
					sd->ents[i] = sd->ents[sd->n - 1 - i];
					sd->ents[sd->n - 1 - i] = t;
				}
			} else if (s > 2) {
				s ^= (uint64_t) k;
				for (int i = sd->n - 1; i > 0; i--) {
					int j = (int) (sim_rand(&s) % (uint64_t) (i + 1));
					struct dirent t = sd->ents[i];
					sd->ents[i] = sd->ents[j];
					sd->ents[j] = t;
				}
			}
		}
	}
	end_step(k, "opendir", path, 0, sd ? 0 : -1, e);
	errno = e;
	return (DIR *) sd;
}

struct dirent *
__wrap_readdir(DIR *d)
{
	if (sim_self() < 0)
		return __real_readdir(d);
	struct simdir *sd = (struct simdir *) d;
	struct fault *f;
	long k = begin_step("readdir", &f);
	struct dirent *ret = NULL;
	int e = 0;
	if (f && (f->readdir_eof || f->err)) {
		e = f->err ? f->err : EIO;
		sd->i = sd->n;
	} else if (sd->i < sd->n) {
		ret = &sd->ents[sd->i++];
	}
	int entry_errno = errno;
	end_step(k, "readdir", ret ? ret->d_name : sd->path, 0, ret ? 1 : 0, e);
	/* readdir() does not change errno at the end of the directory */
	errno = e ? e : entry_errno;
	return ret;
}

int
__wrap_closedir(DIR *d)
{
	if (sim_self() < 0)
		return __real_closedir(d);
	struct simdir *sd = (struct simdir *) d;
	struct fault *f;
	long k = begin_step("closedir", &f);
	end_step(k, "closedir", sd->path, 0, 0, 0);
	free(sd->ents);
	free(sd->path);
	free(sd);
	return 0;
}
